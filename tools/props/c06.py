"""C06 — operator precedence, associativity and grouping are respected."""
from fractions import Fraction
import itertools
import vlib
import pipeline
import gens

PROP_FILE = "props/C06.v"
LEVEL = "proof"
TRUSTED_BASE = [
    "hand-written Gallina model of parser.rs / grammar.rs (forest + checkpoints) and of the evaluator; the precedence stack abstracted "
    "into frames (spec/Climb.v) with climb = canon proved for any number of operators; the parser model proved to simulate the frames "
    "step by step (ParseGeneral.v) and to build, for every well-formed expression (every operand kind of value(), casts, calls, any "
    "nesting, any blanks), the tree of the documented grammar (ParseChains.v); model priorities proved equal to the translated table",
    "correspondence: anything::query vs Run.query on every generated expression",
    "independent evaluator over the expression tree (Python fractions) as the specification oracle: the printed text omits every "
    "parenthesis that precedence and left-associativity make redundant",
]
ASSUMPTIONS = [
    "the unbounded theorems are about token lists of well-formed expressions; what the parser does outside that syntax (error recovery) "
    "and what non-numeric operands evaluate to is covered by correspondence and oracle on generated inputs",
]

OPS = "+-*/^"


def bracketings(leaves):
    """All full binary bracketings of a sequence of (operand, op, operand, ...) as trees."""
    if len(leaves) == 1:
        yield leaves[0]
        return
    # leaves = [x0, o1, x1, o2, x2 ...]
    for i in range(1, len(leaves), 2):
        for l in bracketings(leaves[:i]):
            for r in bracketings(leaves[i + 1:]):
                yield ("bin", leaves[i], l, r)


class NonInt(Exception):
    pass


def evaluate(e):
    try:
        return gens.evaluate(e)
    except gens.DivZero:
        return None
    except ValueError:
        return None
    except OverflowError:
        return "skip"


def size_ok(e):
    """keep powers small so that values stay printable"""
    if e[0] == "bin":
        if e[1] == "^":
            if not size_ok(e[3]):
                return False              # the exponent is itself too large to evaluate: do not even compute it
            try:
                b = gens.evaluate(e[3])
            except Exception:
                return True
            if b.denominator != 1 or abs(b) > 40:
                return b.denominator != 1
        return size_ok(e[2]) and size_ok(e[3])
    return True


def run(rng, tier, model_ok):
    trees = []
    maxlen = 3 if tier == "quick" else 4
    for n in range(0, maxlen + 1):
        for ops in itertools.product(OPS, repeat=n):
            seq = [("num", str(rng.choice([1, 2, 3, 4, 5, 7])))]
            for o in ops:
                seq += [o, ("num", str(rng.choice([1, 2, 3, 2, 3, 5])))]
            for t in bracketings(seq):
                trees.append(t)
    # every operator sequence of length four (and five in the thorough tier, a sample of them in the quick one) without parentheses:
    # where the precedence stack is deepest
    def flat(ops):
        seq = [("num", str(rng.choice([2, 3, 5, 7])))]
        for o in ops:
            seq += [o, ("num", str(rng.choice([1, 2, 3, 2])))]
        # the tree the documented grammar assigns to the flat text: left-associative precedence climbing over the levels
        out, stack = [seq[0]], []
        for i in range(1, len(seq), 2):
            o = seq[i]
            while stack and gens.PRIO[stack[-1]] >= gens.PRIO[o]:
                r = out.pop()
                l = out.pop()
                out.append(("bin", stack.pop(), l, r))
            stack.append(o)
            out.append(seq[i + 1])
        while stack:
            r = out.pop()
            l = out.pop()
            out.append(("bin", stack.pop(), l, r))
        return out[0]
    for ops in itertools.product(OPS, repeat=4):
        trees.append(flat(ops))
    five = list(itertools.product(OPS, repeat=5))
    for ops in (five if tier == "thorough" else rng.sample(five, 500)):
        trees.append(flat(ops))
    exhaustive = len(trees)
    k = 700 if tier == "quick" else 8000
    for _ in range(k):
        n = rng.choice([4, 5, 5])
        seq = [("num", str(rng.randint(1, 9)))]
        for _ in range(n):
            seq += [rng.choice(OPS), ("num", str(rng.randint(1, 4)))]
        bs = list(itertools.islice(bracketings(seq), 0, 60))
        trees.append(rng.choice(bs))
    for _ in range(k // 2):
        trees.append(gens.gen_numeric(rng, rng.randint(3, 6), maxdigits=2, pct=True, neg_pow=True))
    items = []
    shapes = {"paren_right": 0, "paren_left": 0, "call": 0, "cast": 0, "tight": 0}
    for t in trees:
        if not size_ok(t):
            continue
        want = evaluate(t)
        if want == "skip":
            continue
        # wrap some in a function call or a cast to test "function argument" and `to`
        c = rng.random()
        e = t
        post = None
        if c < 0.08 and want is not None:
            e = ("call", "floor", [t])
            post = "floor"
            shapes["call"] += 1
        elif c < 0.14 and want is not None:
            e = ("call", "round", [t, ("num", "2")])
            post = "round2"
            shapes["call"] += 1
        tight = rng.random() < 0.35
        shapes["tight"] += tight
        q = gens.render(e, rng, tight=tight)
        if "(" in q:
            shapes["paren_left" if q.lstrip().startswith("(") else "paren_right"] += 1

        def oracle(reply, want=want, post=post, q=q):
            import math
            if want is None:
                return None if pipeline.is_error(reply) else {"why": "undefined arithmetic accepted", "expected": "error"}
            w = want
            if post == "floor":
                w = Fraction(math.floor(w))
            elif post == "round2":
                x = w * 100
                f = math.floor(abs(x) + Fraction(1, 2))
                w = Fraction(f if x >= 0 else -f, 100)
            v = pipeline.single_value(reply)
            if v is None or Fraction(v[0], v[1]) != w:
                return {"why": "the grammar prescribes %s" % w, "expected": str(w)}
            return None
        items.append((q, oracle))
    # casts: `to` binds loosest
    for _ in range(60 if tier == "quick" else 600):
        a, b, c = rng.randint(1, 9), rng.randint(1, 9), rng.randint(1, 5)
        op1, op2 = rng.choice("+-"), rng.choice("*/")
        sp = rng.choice(gens.BLANKS)
        q = "%d m %s %d m %s %d%sto cm" % (a, op1, b, op2, c, sp)
        w = (Fraction(a) + (1 if op1 == "+" else -1) * (Fraction(b) * c if op2 == "*" else Fraction(b, c))) * 100
        shapes["cast"] += 1

        def oracle(reply, w=w):
            v = pipeline.single_value(reply)
            if v is None or Fraction(v[0], v[1]) != w or v[2] != [["Meter", 1, -2]]:
                return {"why": "`to` binds loosest: expected %s cm" % w, "expected": str(w)}
            return None
        items.append((q, oracle))
    # a comma between plain numbers separates arguments with or without blanks around it, whatever digits stand next to it
    for _ in range(60 if tier == "quick" else 600):
        a = rng.choice(["7", "22/7", "1.5", "12", "3 * 4", "100", "1000", "2 + 5"])
        d = rng.choice(["100", "234", "999", "000", "10", "5", "1000", "12"])
        val = gens.evaluate({"7": ("num", "7"), "22/7": ("bin", "/", ("num", "22"), ("num", "7")), "1.5": ("num", "1.5"), "12": ("num", "12"),
                             "3 * 4": ("num", "12"), "100": ("num", "100"), "1000": ("num", "1000"), "2 + 5": ("num", "7")}[a])
        n = int(d)
        x = val * Fraction(10) ** n
        import math
        f = math.floor(abs(x) + Fraction(1, 2))
        w = Fraction(f if x >= 0 else -f) / Fraction(10) ** n
        for q in ("round(%s,%s)" % (a, d), "round(%s, %s)" % (a, d), "round(%s ,%s)" % (a, d)):
            def oracle(reply, w=w):
                v = pipeline.single_value(reply)
                if v is None or Fraction(v[0], v[1]) != w:
                    return {"why": "a comma separates the arguments: expected %s" % w, "expected": str(w)}
                return None
            items.append((q, oracle))
        shapes["call"] += 3
    # several `to` at one level group left to right: the last one names the unit of the answer
    metric = [("km", 3), ("m", 0), ("cm", -2), ("mm", -3), ("dm", -1), ("nm", -9)]
    for _ in range(60 if tier == "quick" else 600):
        chain = [rng.choice(metric) for _ in range(rng.randint(2, 4))]
        a, b = rng.randint(1, 9), rng.randint(1, 9)
        (u0, e0), (ul, el) = chain[0], chain[-1]
        op = rng.choice(["", "+", "*"])
        if op == "+":
            q, w = "%d %s + %d %s" % (a, u0, b, u0), Fraction(a + b)
        elif op == "*":
            q, w = "%d %s * %d" % (a, u0, b), Fraction(a * b)
        else:
            q, w = "%d %s" % (a, u0), Fraction(a)
        q += "".join("%sto %s" % (rng.choice([" ", "  "]), u) for u, _ in chain[1:])
        w = w * Fraction(10) ** (e0 - el)
        shapes["cast"] += 1

        def oracle(reply, w=w, el=el, ul=ul):
            v = pipeline.single_value(reply)
            if v is None or Fraction(v[0], v[1]) != w or v[2] != [["Meter", 1, el]]:
                return {"why": "casts group left to right: expected %s %s" % (w, ul), "expected": str(w)}
            return None
        items.append((q, oracle))
    # `to` binds loosest also after an operand that is a fact named by several words: the cast applies to the value found
    import qcorr
    import unitlib
    V = unitlib.vocab()
    facts = []
    for c in qcorr.tables()["shipped"]:
        ws = c["tokens"]
        if 2 <= len(ws) <= 4 and all(w.isalpha() and w.islower() and w != "to" for w in ws) and c["unit"]:
            facts.append(" ".join(ws))
    rng.shuffle(facts)
    facts = facts[: (25 if tier == "quick" else 200)]
    krep = vlib.run_impl(["K %s 1" % vlib.hx(f) for f in facts])
    pairs_rel = []
    for f, k in zip(facts, krep):
        if not isinstance(k, list) or not k or "unit" not in k[0] or not k[0]["unit"] or V.has_offset(k[0]["unit"]):
            continue
        tgt = unitlib.expand_text(rng, V, k[0]["unit"])
        if not tgt:
            continue
        for a, b in (("%s to %s" % (f, tgt), "(%s) to %s" % (f, tgt)), ("2 * %s to %s" % (f, tgt), "(2 * %s) to %s" % (f, tgt)),
                     ("%s  to %s" % (f, tgt), "(%s) to %s" % (f, tgt))):
            items.append((a, None))
            items.append((b, None))
            pairs_rel.append((len(items) - 2, len(items) - 1))
    # operators written tight between operands that are words (constants, facts named by one or several words): a word ends where
    # the operator begins, with or without blanks on either side, also inside a product, a call and parentheses
    words = ["pi", "e", "tau"] + facts[:6]
    nword = 0
    for a in words:
        for b in words[:5]:
            if a == b and len(words) > 1:
                continue
            for op in "-+*/":
                ref = "(%s) %s (%s)" % (a, op, b)
                for q in ("%s%s%s" % (a, op, b), "%s%s %s" % (a, op, b), "%s %s%s" % (a, op, b)):
                    items.append((q, None)); items.append((ref, None)); pairs_rel.append((len(items) - 2, len(items) - 1)); nword += 1
                items.append(("2 * %s%s%s" % (a, op, b), None)); items.append(("(2 * (%s)) %s (%s)" % (a, op, b) if op in "-+" else "2 * (%s) %s (%s)" % (a, op, b), None))
                pairs_rel.append((len(items) - 2, len(items) - 1))
                items.append(("round(%s%s%s, 2)" % (a, op, b), None)); items.append(("round(%s, 2)" % ref, None)); pairs_rel.append((len(items) - 2, len(items) - 1))
                items.append(("(%s%s%s) * 3" % (a, op, b), None)); items.append(("(%s) * 3" % ref, None)); pairs_rel.append((len(items) - 2, len(items) - 1))
                nword += 3
    shapes["tight_operators_between_words"] = nword
    corpus = vlib.load_corpus("C06")
    items = [(q, None) for q in corpus] + items
    replies, failures, mismatches, ncoq = pipeline.run_queries(items, "C06", rng, tier, model_ok, budget_quick=2000)
    for i, j in pairs_rel:
        ra, rb = replies[len(corpus) + i], replies[len(corpus) + j]
        va, vb = pipeline.single_value(ra), pipeline.single_value(rb)
        if vb is not None and va != vb:
            failures.append({"input": items[len(corpus) + i][0], "why": "grouping must not depend on the kind of operand or on the blanks: written as %r "
                             "the answer is %s, here %s" % (items[len(corpus) + j][0], vb, va)})
    shapes["cast_after_fact"] = len(pairs_rel)
    distinct = {q for q, _ in items if sum(q.count(o) for o in OPS) >= 2}
    return {
        "evaluations": len(items), "distinct_nontrivial": len(distinct),
        "rule": "every operator sequence over + - * / ^ up to length %d with every full bracketing (printed with only the parentheses the "
                "grammar needs, plus some redundant ones), random sequences of length 4-5 with sampled bracketings, random deeper trees, "
                "some wrapped as function arguments, `to` after sums and products, operators tight between word operands; random legal layouts incl. no blanks around * / ^ ( ) , "
                "and blanks at both ends; non-trivial = distinct queries with at least two operators" % maxlen,
        "samples": [q for q, _ in items[len(corpus) + 100:len(corpus) + 106]],
        "mismatches": mismatches, "failures": failures,
        "extra": dict(shapes=shapes, exhaustive_bracketed_sequences=exhaustive, model_cases_evaluated_in_coq=ncoq, exhaustive=False),
    }


def replay(obj):
    q = obj["input"]
    r = vlib.run_impl(["Q " + vlib.hx(q)])[0]
    print("query %r -> %s (expected %s)" % (q, r.get("results"), obj.get("expected")))
    if obj.get("expected") == "error":
        return pipeline.is_error(r)
    v = pipeline.single_value(r)
    return v is not None and "expected" in obj and Fraction(v[0], v[1]) == Fraction(obj["expected"])
