"""C17 — stored facts and units survive serialisation unchanged."""
from fractions import Fraction
import json
import os
import vlib
import qcorr
import unitlib

PROP_FILE = "props/C17.v"
LEVEL = "proof"
TRUSTED_BASE = [
    "hand-written Gallina model of the CBOR subset serde_cbor uses and of the serde encodings of Rational, Unit, Compound, Constant "
    "(coq/model/Cbor.v, Codec.v); id tables and shipped data translated from /repo on every run",
    "correspondence: serde_cbor::to_vec bytes vs the model's bytes for every shipped value and unit, random big rationals and random "
    "compounds; serde_cbor::from_slice vs the model's decoder on those bytes; serde_json text of rationals vs the model's printer",
    "the implementation's own decode(encode(x)) == x for CBOR and JSON as oracle; the translator's independent CBOR reading of db/*.bin.gz "
    "is cross-checked against serde's",
]
ASSUMPTIONS = ["theorems are about the model; JSON decoding is checked on the implementation only (the model prints JSON, it does not parse it)"]


def unhex(h):
    return [int(h[i:i + 2], 16) for i in range(0, len(h), 2)]


def cbor_read(b, i=0):
    """Minimal CBOR reader keeping map order: returns (value, next index); maps are lists of pairs tagged ("map", pairs)."""
    ib = b[i]
    major, info = ib >> 5, ib & 31
    i += 1
    if info < 24:
        arg = info
    else:
        n = {24: 1, 25: 2, 26: 4, 27: 8}[info]
        arg = int.from_bytes(b[i:i + n], "big")
        i += n
    if major == 0:
        return arg, i
    if major == 1:
        return -1 - arg, i
    if major == 2:
        return ("bytes", bytes(b[i:i + arg])), i + arg
    if major == 3:
        return bytes(b[i:i + arg]).decode("utf-8"), i + arg
    if major == 4:
        out = []
        for _ in range(arg):
            v, i = cbor_read(b, i)
            out.append(v)
        return out, i
    if major == 5:
        out = []
        for _ in range(arg):
            k, i = cbor_read(b, i)
            v, i = cbor_read(b, i)
            out.append((k, v))
        return ("map", out), i
    raise ValueError("unsupported CBOR major type %d" % major)


def cbor_write(v):
    def head(major, arg):
        if arg < 24:
            return bytes([major << 5 | arg])
        for info, n in ((24, 1), (25, 2), (26, 4), (27, 8)):
            if arg < 1 << (8 * n):
                return bytes([major << 5 | info]) + arg.to_bytes(n, "big")
        raise ValueError("too large")
    if isinstance(v, bool):
        raise ValueError("bool")
    if isinstance(v, int):
        return head(0, v) if v >= 0 else head(1, -1 - v)
    if isinstance(v, str):
        e = v.encode("utf-8")
        return head(3, len(e)) + e
    if isinstance(v, list):
        return head(4, len(v)) + b"".join(cbor_write(x) for x in v)
    if isinstance(v, tuple) and v[0] == "bytes":
        return head(2, len(v[1])) + v[1]
    if isinstance(v, tuple) and v[0] == "map":
        return head(5, len(v[1])) + b"".join(cbor_write(k) + cbor_write(x) for k, x in v[1])
    raise ValueError("unsupported")


def reorder(v, how):
    """the same CBOR value with the entries of every map in another order"""
    if isinstance(v, tuple) and v[0] == "map":
        pairs = [(k, reorder(x, how)) for k, x in v[1]]
        if how == "reverse":
            pairs = pairs[::-1]
        elif how == "canonical":
            pairs = sorted(pairs, key=lambda kv: (len(cbor_write(kv[0])), cbor_write(kv[0])))
        return ("map", pairs)
    if isinstance(v, list):
        return [reorder(x, how) for x in v]
    return v


def run(rng, tier, model_ok):
    V = unitlib.vocab()
    failures, cases, samples = [], [], []
    stats = {"shipped_constants": 0, "random_rationals": 0, "random_compounds": 0, "derived_units": 0}
    # ---- every shipped constant
    shipped = vlib.run_impl(["C s"])[0]
    tshipped = qcorr.tables()["shipped"]
    if not isinstance(shipped, list) or len(shipped) != len(tshipped):
        failures.append({"input": "db/*.bin.gz", "why": "serde decodes %s constants, the translator %d" % (len(shipped) if isinstance(shipped, list) else shipped, len(tshipped))})
        shipped = shipped if isinstance(shipped, list) else []
    for c, t in zip(shipped, tshipped):
        stats["shipped_constants"] += 1
        if c.get("roundtrip") is not True:
            failures.append({"input": c.get("tokens"), "why": "shipped constant does not survive encode/decode", "file": c.get("file")})
            continue
        if (int(c["value"][0]), int(c["value"][1])) != (t["num"], t["den"]) or c["tokens"] != t["tokens"]:
            failures.append({"input": c["tokens"], "why": "translator and serde disagree on the shipped value (translator bug or data change)"})
        n, d = int(c["value"][0]), int(c["value"][1])
        cases.append((5, [n, d], unhex(c["value_cbor"])))
        cases.append((6, qcorr.encode_units(c["unit"]), unhex(c["unit_cbor"])))
        cases.append((7, unhex(c["unit_cbor"]), [1] + qcorr.encode_units(c["unit"])))
    samples.append({"shipped": shipped[0]["tokens"], "value_cbor": shipped[0]["value_cbor"]} if shipped else {})
    # ---- random big rationals: CBOR and JSON
    nr = 300 if tier == "quick" else 5000
    rats = [(0, 1), (1, 1), (-1, 1), (2 ** 32 - 1, 1), (2 ** 32, 1), (2 ** 64, 3), (-(2 ** 32), 2 ** 32 + 1)]
    for _ in range(nr):
        bits = rng.choice([8, 31, 32, 33, 63, 64, 65, 128, 300, 1000])
        q = Fraction(rng.randint(-2 ** bits, 2 ** bits), rng.randint(1, 2 ** rng.choice([1, 31, 32, 33, 64, 200])))
        rats.append((q.numerator, q.denominator))
    # values that are exactly binary floating-point numbers (dyadic, up to 53 significant bits) and their neighbours: a codec that goes
    # through f64 or through decimal text anywhere shows here
    for _ in range(120 if tier == "quick" else 3000):
        m = rng.getrandbits(rng.choice([20, 52, 53, 53, 54, 64])) | 1
        k = rng.randint(0, 80)
        q = Fraction(rng.choice([1, -1]) * m, 2 ** k)
        rats.append((q.numerator, q.denominator))
    rats += [(2 ** 53, 1), (2 ** 53 + 1, 1), (2 ** 53 - 1, 1), (1, 2 ** 60), (9007199254740993, 2 ** 10), (1, 10), (1, 3), (-1, 2 ** 1074)]
    rrep = vlib.run_impl(["C r %d %d" % r for r in rats])
    for (n, d), r in zip(rats, rrep):
        stats["random_rationals"] += 1
        if r.get("cbor_back") is None or (int(r["cbor_back"][0]), int(r["cbor_back"][1])) != (n, d):
            failures.append({"input": [n, d], "why": "rational does not survive CBOR"})
        if r.get("json_back") is None or (int(r["json_back"][0]), int(r["json_back"][1])) != (n, d):
            failures.append({"input": [n, d], "why": "rational does not survive JSON"})
        if r.get("cbor"):
            cases.append((5, [n, d], unhex(r["cbor"])))
        if r.get("json"):
            cases.append((8, [n, d], [ord(ch) for ch in r["json"]]))
    samples.append({"rational": list(rats[10]), "cbor": rrep[10].get("cbor"), "json": rrep[10].get("json")})
    # ---- every derived unit through every typeable name, and random compounds
    texts = []
    for v in sorted(V.names):
        texts += V.names[v]
    stats["derived_units"] = len(texts)
    nc = 200 if tier == "quick" else 4000
    for _ in range(nc):
        texts.append(V.unit_expr(rng, offset_ok=True))
    # boundary: every prefix on a handful of units (the gram is stored relative to the kilogram, so its prefixes reach -27 and +21),
    # alone, squared, inverted and in a quotient
    for _, letter in V.prefixes:
        for w in ("g", "m", "s", "B", "N", "Hz"):
            texts += [letter + w, letter + w + "^2", letter + w + "^-1", "m/" + letter + w, letter + w + "*s^-3"]
    crep = vlib.run_impl(["C u " + vlib.hx(t) for t in texts])
    for t, r in zip(texts, crep):
        if "names" not in r:
            continue
        stats["random_compounds"] += 1
        if r.get("equal") is not True:
            failures.append({"input": t, "why": "unit expression does not survive CBOR", "got": r})
            continue
        cases.append((6, qcorr.encode_units(r["names"]), unhex(r["cbor"])))
        cases.append((7, unhex(r["cbor"]), [1] + qcorr.encode_units(r["names"])))
    samples.append({"unit": texts[-1], "cbor": crep[-1].get("cbor")})
    # whole constants (the record the data files and the index store: words, description, source, value, unit) with every unit
    # expression above, alone and next to a second unit: a record written must be a record that reads back
    ctexts = list(texts)
    for v in sorted(V.names):
        w = V.names[v][0]
        ctexts += [w + "/km", "J/kg*" + w, w + "*s^-1", w + "^2", "1/" + w]
    cvals = [(1, 1), (-13, 2), (0, 1), (2 ** 70 + 1, 3 ** 20)]
    clines = []
    for j, t in enumerate(ctexts):
        n, d = cvals[j % len(cvals)]
        clines.append("C c %s %d %d %s %s %s" % (vlib.hx(t), n, d, ("-", "0", "7", str(2 ** 63))[j % 4], vlib.hx(("lapse rate", "x", "", "mass of earth")[j % 4]),
                                                 vlib.hx(("Some constant", "", "Ünïcode ° description")[j % 3])))
    ccrep = vlib.run_impl(clines)
    stats["whole_constants"] = 0
    for t, r in zip(ctexts, ccrep):
        if "names" not in r:
            continue
        stats["whole_constants"] += 1
        for kind in ("cbor",):            # (JSON is claimed for rationals only: a derived unit is no JSON map key)
            if r.get(kind + "_same") is not True:
                failures.append({"input": t, "why": "a constant with the unit `%s` does not survive %s: %s" % (t, kind.upper(), r.get(kind + "_back_err") or r.get(kind + "_err") or "decodes to another constant")})
    # the same unit expressions with the entries of their maps in another order (the index stores them re-encoded in canonical CBOR
    # order, other writers may use any order): what they decode to does not depend on it
    perm = []
    for t, r in zip(texts, crep):
        if r.get("equal") is True and len(r.get("names", [])) >= 2 and len(perm) < (400 if tier == "quick" else 6000):
            v, _ = cbor_read(bytes.fromhex(r["cbor"]))
            for how in ("reverse", "canonical"):
                perm.append((t, how, cbor_write(reorder(v, how)).hex(), r["names"]))
    prep = vlib.run_impl(["C d " + h for _, _, h, _ in perm])
    for (t, how, h, names), r in zip(perm, prep):
        if r.get("names") != names:
            failures.append({"input": t, "why": "the unit expression with its map entries in %s order decodes to %s instead of %s" % (how, r.get("names") or r, names), "cbor": h})
    stats["reordered_maps"] = len(perm)
    # ids: every id constant of the table decodes to a unit with that id (through serde)
    ids = sorted({u["id"] for u in qcorr.tables()["units"].values()})
    drep = vlib.run_impl(["C d " + bytes([0xA1, 0x65]).hex() + "names".encode().hex() + "a1a167" + "Derived".encode().hex() + "1a%08x" % i + "a265" + "power".encode().hex() + "0166" + "prefix".encode().hex() + "00" for i in ids])
    for i, r in zip(ids, drep):
        if r.get("names") != [["D%d" % i, 1, 0]]:
            failures.append({"input": i, "why": "identifier does not decode to the same derived unit", "got": r})
    # stability: every identifier of the pinned reference table still decodes to the unit that printed that symbol
    import re as _re
    ref = [(int(a), "".join(chr(int(x)) for x in b.split(";") if x)) for a, b in
           _re.findall(r"\((\d+)%N, \[([\d;]*)\]%N\)", open(os.path.join(vlib.COQ, "spec", "RefIds.v")).read())]
    rrep2 = vlib.run_impl(["C d " + bytes([0xA1, 0x65]).hex() + "names".encode().hex() + "a1a167" + "Derived".encode().hex() + "1a%08x" % i + "a265" + "power".encode().hex() + "0166" + "prefix".encode().hex() + "00" for i, _ in ref])
    for (i, sym), r in zip(ref, rrep2):
        if r.get("text") != sym:
            failures.append({"input": i, "why": "stored data written with identifier %d meant the unit `%s`; this build reads it as %s" % (i, sym, r.get("text") or r)})
    stats["reference_identifiers"] = len(ref)
    if len(set(ids)) != len(qcorr.tables()["units"]):
        failures.append({"input": "ids", "why": "two derived units share an identifier"})
    mismatches = []
    if model_ok:
        sub = [c for c in cases if all(abs(x) < 10 ** 400 for x in c[1])]
        budget = 4000 if tier == "quick" else 60000
        if len(sub) > budget:
            sub = sub[:2700] + rng.sample(sub[2700:], budget - 2700)
        bad = vlib.coq_eval_cases(sub, "C17", shard_size=300)
        for j, got in sorted(bad.items()):
            mismatches.append({"tag": sub[j][0], "input": sub[j][1][:12], "model": got[:40], "impl": sub[j][2][:40]})
    return {
        "evaluations": len(cases) + len(ids), "distinct_nontrivial": len({(c[0], tuple(c[1])) for c in cases}),
        "rule": "all shipped constants (exhaustive): value and unit bytes of serde_cbor vs model, decode back; random rationals with up to 1000-bit "
                "numerators (CBOR and JSON); every derived unit through every typeable name and random compounds with prefixes and powers; every "
                "identifier decoded through serde; whole constants with every unit expression alone and next to a second unit; multi-unit maps in reversed and canonical order; non-trivial = distinct (kind, input) cases compared byte for byte",
        "samples": samples, "mismatches": mismatches, "failures": failures,
        "extra": dict(stats, exhaustive=True, exhaustive_domain="shipped constants and derived-unit identifiers"),
    }


def replay(obj):
    print("recorded:", json.dumps(obj)[:400])
    return False
