"""C09 — temperature scales convert by their defining affine formulas."""
from fractions import Fraction
import itertools
import vlib
import pipeline
import unitlib
from props.c02 import gens_dec

PROP_FILE = "props/C09.v"
LEVEL = "proof"
TRUSTED_BASE = [
    "hand-written Gallina model of Compound::factor / apply_conversion; the Celsius offset and the two Fahrenheit closures are translated "
    "from src/units/temperature.rs on every run (a changed constant breaks conv_C / conv_F in proofs/TemperatureProofs.v)",
    "correspondence: anything::query vs Run.query on every generated conversion",
    "the defining formulas K = C + 273.15, C = (F - 32) * 5/9 over Python fractions as oracle",
]
ASSUMPTIONS = ["theorems are about the model; the tie to the Rust code is the correspondence on this run's inputs"]

K0 = Fraction(27315, 100)
NAMES = {"K": ["K", "kelvin"], "C": ["°C", "celsius"], "F": ["°F", "fahrenheit"]}


def to_k(s, v):
    return v if s == "K" else v + K0 if s == "C" else (v - 32) * Fraction(5, 9) + K0


def from_k(s, v):
    return v if s == "K" else v - K0 if s == "C" else (v - K0) * Fraction(9, 5) + 32


def interval(s):
    """size of one degree in kelvin"""
    return Fraction(5, 9) if s == "F" else Fraction(1)


def lit(x):
    return gens_dec(x) if x >= 0 else "-" + gens_dec(-x)


def prefixed_items(rng, tier):
    """a prefix on either scale: the prefixed reading is the reading times the power of ten, before any offset"""
    items = []
    scales = "KCF"
    pref = [("", 0), ("k", 3), ("m", -3), ("M", 6), ("c", -2), ("G", 9)]
    short = {"K": "K", "C": "°C", "F": "°F"}
    for a, b in itertools.product(scales, repeat=2):
        for (la, pa), (lb, pb) in itertools.product(pref, repeat=2):
            if (pa == 0 and pb == 0) or (tier == "quick" and rng.random() < 0.6):
                continue
            x = rng.choice([Fraction(1), Fraction(300), Fraction(-2), Fraction(5, 2), Fraction(27315, 100), Fraction(0)])
            want = from_k(b, to_k(a, x * Fraction(10) ** pa)) / Fraction(10) ** pb

            def o(reply, want=want):
                v = pipeline.single_value(reply)
                if v is None or Fraction(v[0], v[1]) != want:
                    return {"why": "with prefixes the defining formula gives %s" % want, "expected": str(want)}
                return None
            items.append(("%s %s%s to %s%s" % (lit(x), la, short[a], lb, short[b]), o))
    return items


def offset_products(rng, tier):
    """A temperature reading as an operand of * and /: alone with power one (also under a prefix) it is the absolute temperature in
    kelvin that enters the product, on either side and next to an operand of one or several units; inside a compound it is refused."""
    V = unitlib.vocab()
    others = [("3 s", Fraction(3), {"Second": 1}), ("2 m", Fraction(2), {"Meter": 1}), ("2 m*s", Fraction(2), {"Meter": 1, "Second": 1}),
              ("5 kg/s", Fraction(5), {"KiloGram": 1, "Second": -1}), ("4 km", Fraction(4000), {"Meter": 1})]
    # partners whose units carry a conversion factor of their own (ft, min, btu, lb, mi/hr)
    for txt in ["3 ft", "2 min", "4 btu", "2 lb", "5 mi/hr", "2 btu/K", "3 in*lb"]:
        num, utext = txt.split(" ", 1)
        names = unitlib.impl_units([utext])[0]
        if names and not V.has_offset(names):
            others.append((txt, Fraction(num) * V.scale(names), V.dims(names)))
    alone = [("10 °C", to_k("C", Fraction(10))), ("50 °F", to_k("F", Fraction(50))), ("1 k°C", to_k("C", Fraction(1000))),
             ("100 m°C", to_k("C", Fraction(1, 10))), ("300 K", Fraction(300)), ("-40 °F", to_k("F", Fraction(-40))), ("2 k°F", to_k("F", Fraction(2000)))]
    comp = ["10 °C*m", "10 m*°C", "5 °F/s", "2 °C^2", "3 s/°C", "7 °F*kg", "1 k°C*m"]
    items = []

    def dims_mul(a, b, sign):
        d = dict(a)
        for k, v in b.items():
            d[k] = d.get(k, 0) + sign * v
        return {k: v for k, v in d.items() if v}
    for (ot, ov, od) in others:
        for (tt, tk) in alone:
            for q, want, dims in (("%s * %s" % (ot, tt), ov * tk, dims_mul(od, {"Kelvin": 1}, 1)), ("%s * %s" % (tt, ot), ov * tk, dims_mul(od, {"Kelvin": 1}, 1)),
                                  ("%s / %s" % (ot, tt), ov / tk, dims_mul(od, {"Kelvin": 1}, -1)), ("%s / %s" % (tt, ot), tk / ov, dims_mul({"Kelvin": 1}, od, -1))):
                if tier == "quick" and rng.random() < 0.5:
                    continue

                def o(reply, want=want, dims=dims):
                    v = pipeline.single_value(reply)
                    if v is None or V.has_offset(v[2]) or V.si(v[0], v[1], v[2]) != want or V.dims(v[2]) != dims:
                        return {"why": "a temperature standing alone enters a product as its absolute value in kelvin: expected SI %s with %s" % (want, dims),
                                "expected": str(want)}
                    return None
                items.append((q, o))
        for ct in comp:
            for q in ("%s * %s" % (ot, ct), "%s * %s" % (ct, ot), "%s / %s" % (ot, ct), "%s / %s" % (ct, ot)):
                if tier == "quick" and rng.random() < 0.5:
                    continue

                def o2(reply):
                    if pipeline.is_error(reply):
                        return None
                    return {"why": "an offset scale inside a compound took part in a product", "expected": "error or the interval reading"}
                items.append((q, o2))
    return items


def run(rng, tier, model_ok):
    V = unitlib.vocab()
    items = []
    stats = {"pairs": 0, "chains": 0, "composite": 0, "composite_refused": 0, "composite_interval": 0}
    mags = [Fraction(0), Fraction(-40), Fraction(100), Fraction(37), Fraction(-27315, 100), Fraction(32), Fraction(212), Fraction(1, 1000)]
    n = 40 if tier == "quick" else 800
    for _ in range(n):
        mags.append(Fraction(rng.randint(-10 ** 6, 10 ** 6), rng.choice([1, 10, 100, 1000, 10 ** 6])))
        mags.append(Fraction(rng.randint(-10 ** 30, 10 ** 30), 10 ** rng.randint(0, 20)))
    scales = "KCF"
    for x in mags:
        for a, b in itertools.permutations(scales, 2):
            if tier == "quick" and rng.random() < 0.5:
                continue
            want = from_k(b, to_k(a, x))
            na, nb = rng.choice(NAMES[a]), rng.choice(NAMES[b])

            def o(reply, want=want, b=b):
                v = pipeline.single_value(reply)
                if v is None or Fraction(v[0], v[1]) != want:
                    return {"why": "the defining formula gives %s" % want, "expected": str(want)}
                return None
            items.append(("%s %s to %s" % (lit(x), na, nb), o))
            stats["pairs"] += 1
    # the conversion that + and - perform on their right operand is the same conversion: x A - y B = x - (y B to A), on scale A;
    # and taking away what was added returns the reading
    for a, b in itertools.product(scales, repeat=2):
        for x, y in [(Fraction(300), Fraction(20)), (Fraction(50), Fraction(10)), (Fraction(100), Fraction(180)), (Fraction(0), Fraction(0)),
                     (Fraction(-40), Fraction(-40)), (Fraction(5, 2), Fraction(-27315, 100)), (rng.choice(mags), rng.choice(mags))]:
            conv = from_k(a, to_k(b, y))
            na, nb = NAMES[a][0], NAMES[b][0]
            for q, want in (("%s %s - %s %s" % (lit(x), na, lit(y), nb), x - conv), ("%s %s + %s %s" % (lit(x), na, lit(y), nb), x + conv),
                            ("%s %s - %s %s + %s %s" % (lit(x), na, lit(y), nb, lit(y), nb), x),
                            ("(%s %s - %s %s) to %s" % (lit(x), na, lit(y), nb, nb), from_k(b, to_k(a, x - conv)))):
                def o(reply, want=want):
                    v = pipeline.single_value(reply)
                    if v is None or Fraction(v[0], v[1]) != want:
                        return {"why": "the right operand of + and - is converted by the defining formula: %s" % want, "expected": str(want)}
                    return None
                items.append((q, o))
                stats["sums"] = stats.get("sums", 0) + 1
    for it in prefixed_items(rng, tier):
        items.append(it)
        stats["prefixed"] = stats.get("prefixed", 0) + 1
    for it in offset_products(rng, tier):
        items.append(it)
        stats["products"] = stats.get("products", 0) + 1
    # chains up to length four, and back
    for _ in range(60 if tier == "quick" else 1500):
        x = rng.choice(mags)
        path = [rng.choice(scales)]
        for _ in range(rng.randint(2, 4)):
            path.append(rng.choice([s for s in scales if s != path[-1]]))
        want = from_k(path[-1], to_k(path[0], x))
        q = "%s %s" % (lit(x), rng.choice(NAMES[path[0]])) + "".join(" to " + rng.choice(NAMES[s]) for s in path[1:])

        def o(reply, want=want):
            v = pipeline.single_value(reply)
            if v is None or Fraction(v[0], v[1]) != want:
                return {"why": "the chain must end where the direct conversion does: %s" % want, "expected": str(want)}
            return None
        items.append((q, o))
        stats["chains"] += 1
    # an offset scale anywhere but alone with power one
    others = ["s", "m", "kg", "hr", "W", "km"]
    shapes = []
    for s in "CF":
        for p in (-3, -2, -1, 2, 3):
            shapes.append((s, "%%s^%d" % p, "K^%d" % p, p))
        for o1 in others:
            shapes.append((s, "%s/" + o1, "K/" + o1, 1))
            shapes.append((s, "%s*" + o1, "K*" + o1, 1))
            shapes.append((s, o1 + "/%s", o1 + "/K", -1))
            shapes.append((s, o1 + "*%s", o1 + "*K", 1))
            for o2 in others[:3]:
                if o2 != o1:
                    shapes.append((s, o1 + "*%s/" + o2, o1 + "*K/" + o2, 1))
    rng.shuffle(shapes)
    for s, src, tgt, p in shapes[: (80 if tier == "quick" else len(shapes))]:
        x = rng.choice([Fraction(1), Fraction(20), Fraction(-5), Fraction(5, 2)])
        name = rng.choice(NAMES[s][:1])
        src_t = src % name
        for a, b in ((src_t, tgt), (tgt, src_t)):
            k = interval(s) ** p
            want = x * k if a == src_t else x / k

            def o(reply, want=want):
                if pipeline.is_error(reply):
                    return None
                v = pipeline.single_value(reply)
                if v is None:
                    return {"why": "neither refused nor a single value"}
                if Fraction(v[0], v[1]) != want:
                    return {"why": "the zero-point offset was applied to a scale that does not stand alone (got %s, interval reading %s)" % (Fraction(v[0], v[1]), want),
                            "expected": "error or %s" % want}
                return None
            items.append(("%s %s to %s" % (lit(x), a, b), o))
            stats["composite"] += 1
    corpus = vlib.load_corpus("C09")
    items = [(q, None) for q in corpus] + items
    replies, failures, mismatches, ncoq = pipeline.run_queries(items, "C09", rng, tier, model_ok, budget_quick=1500)
    for (q, _), r in zip(items, replies):
        if "^" in q or "/" in q or "*" in q:
            stats["composite_refused" if pipeline.is_error(r) else "composite_interval"] += 1
    return {
        "evaluations": len(items), "distinct_nontrivial": len({q for q, _ in items}),
        "rule": "rational magnitudes (fixed points, absolute zero, random up to 1e30 with up to 20 decimals, negatives) through all six ordered "
                "pairs of scales under both spellings of each scale, sums and differences of readings on two scales, conversion chains of length 2..4, and an offset scale with powers -3..3 or "
                "combined with one or two other units on either side of `to`; non-trivial = distinct queries",
        "samples": [q for q, _ in items[len(corpus) + 2::max(1, len(items) // 7)]][:8],
        "mismatches": mismatches, "failures": failures,
        "extra": dict(stats, model_cases_evaluated_in_coq=ncoq, exhaustive=False),
    }


def replay(obj):
    q = obj["input"]
    r = vlib.run_impl(["Q " + vlib.hx(q)])[0]
    print("query %r -> %s; recorded: %s" % (q, r.get("results"), obj.get("why")))
    exp = obj.get("expected", "")
    if exp.startswith("error or"):
        v = pipeline.single_value(r)
        return pipeline.is_error(r) or (v is not None and Fraction(v[0], v[1]) == Fraction(exp.split()[-1]))
    v = pipeline.single_value(r)
    return v is not None and exp and Fraction(v[0], v[1]) == Fraction(exp)
