from fractions import Fraction
"""C07 — decimal literals are read exactly."""
import itertools
import re
import vlib
import qcorr
from gens import literal_value, gen_literal

PROP_FILE = "props/C07.v"
LEVEL = "proof"
TRUSTED_BASE = [
    "hand-written Gallina model of `impl FromStr for Rational` (coq/model/Literal.v) and of lexer/parser/eval (C12's model)",
    "correspondence: str::parse::<Rational> vs Literal.from_str on every string of the exhaustive sweep (also malformed ones), "
    "anything::query vs Run.query on every well-formed literal with and without `%`",
    "independent exact reading of a literal in Python (integers/fractions) as the specification oracle",
]
ASSUMPTIONS = [
    "theorems are about the model; the tie to the Rust code is the correspondence on this run's inputs",
    "that the lexer takes a whole well-formed literal as one NUMBER token is a hypothesis of C07_query_number, discharged "
    "per input by the correspondence (and by vm_compute for the sweep), not yet by a general lemma",
]

WF = re.compile(r"^[+-]?(\d+\.?\d*|\.\d+)([eE][+-]?\d+)?$")
DIG = "019"


def digit_strings(maxlen):
    out = {0: [""]}
    for n in range(1, maxlen + 1):
        out[n] = [a + d for a in out[n - 1] for d in DIG]
    return out


def well_formed_upto(maxlen):
    """All well-formed literals of length <= maxlen over digits {0,1,9}, signs, point, e/E — enumerated from the grammar."""
    ds = digit_strings(maxlen)
    mant = []
    for n in range(1, maxlen + 1):
        for a in range(0, n + 1):
            # a digits, no point
            if a == n:
                mant += ds[a]
            # a digits, point, b digits  (a + 1 + b = n)
            b = n - 1 - a
            if b >= 0 and a + b >= 1:
                mant += [x + "." + y for x in ds[a] for y in ds[b]]
    out = []
    for m in mant:
        for sg in ("", "+", "-"):
            base = sg + m
            if len(base) > maxlen:
                continue
            out.append(base)
            room = maxlen - len(base)
            for e in "eE":
                for es in ("", "+", "-"):
                    for k in range(1, min(4, room - len(es))):      # exponents of at most three digits (larger ones only cost time)
                        for x in ds[k]:
                            out.append(base + e + es + x)
    return sorted(set(out))


def run(rng, tier, model_ok):
    maxlen = 5 if tier == "quick" else 7
    wf = well_formed_upto(maxlen)
    assert all(WF.match(w) for w in wf)
    # random long literals (up to hundreds of digits)
    nrand = 300 if tier == "quick" else 3000
    longs = []
    for _ in range(nrand):
        longs.append(gen_literal(rng, maxdigits=rng.choice([8, 20, 40, 120, 300]), sign=True))
    lits = vlib.load_corpus("C07") + wf + longs
    # all strings (also malformed) of a short sweep for the number parser correspondence
    sweep_len = 4 if tier == "quick" else 5
    alpha = "019+-.eE%"
    sweep = ["".join(t) for n in range(0, sweep_len + 1) for t in itertools.product(alpha, repeat=n)]

    failures = []
    # --- number parser
    rrep = vlib.run_impl(["R " + vlib.hx(s) for s in lits + sweep])
    cases = []
    for s, r in zip(lits + sweep, rrep):
        exp = [1, int(r["ok"][0]), int(r["ok"][1])] if "ok" in r else [0]
        if "panic" in r or "crash" in r:
            exp = [-3]
        if len(s) <= 60:
            cases.append((3, [ord(c) for c in s], exp))
    for s, r in zip(lits, rrep):
        v = literal_value(s)
        if "ok" not in r or (int(r["ok"][0]), int(r["ok"][1])) != (v.numerator, v.denominator):
            failures.append({"input": s, "api": "str::parse::<Rational>", "expected": "%d/%d" % (v.numerator, v.denominator), "got": r, "why": "literal read inexactly"})
    # --- as a query, with and without percent
    qs = []
    for s in lits:
        qs.append(s)
        qs.append(s + "%")
    # a percent sign may be set off by blanks
    spaced = []
    for s in rng.sample(lits, min(len(lits), 400 if tier == "quick" else 6000)):
        spaced.append(s + rng.choice([" ", "  ", "\t", "\u00a0", " \t "]) + "%")
    qs += spaced
    qrep, _, qcases = qcorr.build_cases(qs)
    for q, r in zip(qs, qrep):
        v = literal_value(q.rstrip("%").rstrip())
        if q.endswith("%"):
            v = v / 100
        res = r.get("results")
        ok = res is not None and len(res) == 1 and "ok" in res[0] and (int(res[0]["ok"][0]), int(res[0]["ok"][1])) == (v.numerator, v.denominator) and res[0]["ok"][2] == []
        if not ok:
            failures.append({"input": q, "api": "query", "expected": "%d/%d" % (v.numerator, v.denominator), "got": r, "why": "literal in a query denotes another number"})
    # a literal denotes the same number whatever other literals stand in the same query: several of them side by side as separate
    # results, unsigned ones as the operands of one product; mantissas and exponents are paired so that they agree in everything but
    # one feature (the sign of the exponent, the sign of the number, a leading zero, a trailing point)
    together = []
    unsigned = [s for s in wf + longs[:60] if s[0] not in "+-" and len(s) <= 40]
    for _ in range(300 if tier == "quick" else 5000):
        a = rng.choice(unsigned)
        twins = [a]
        m = re.match(r"^(.*[eE])([+-]?)(\d+)$", a)
        if m:
            twins += [m.group(1) + "-" + m.group(3), m.group(1) + "+" + m.group(3), m.group(1) + m.group(3)]
        else:
            k = str(rng.randint(0, 12))
            twins += [a + "e" + k, a + "e-" + k, a + "E+" + k] if re.search(r"\d$", a) or a.endswith(".") else []
        twins.append(rng.choice(unsigned))
        rng.shuffle(twins)
        twins = twins[: rng.randint(2, 4)]
        together.append((" ".join("(%s)" % t for t in twins), twins, "side"))
        together.append((" * ".join(twins), twins, "product"))
    trep, _, tcases = qcorr.build_cases([q for q, _, _ in together])
    for (q, parts, how), r in zip(together, trep):
        res = r.get("results") or []
        vals = [literal_value(t) for t in parts]
        if how == "side":
            want = [(v.numerator, v.denominator) for v in vals]
        else:
            prod = Fraction(1)
            for v in vals:
                prod *= v
            want = [(prod.numerator, prod.denominator)]
        got = [(int(x["ok"][0]), int(x["ok"][1])) if "ok" in x else None for x in res]
        if got != want:
            failures.append({"input": q, "api": "query", "expected": str(want), "got": r, "why": "literals written in one query do not denote the numbers they spell"})
    cases += [c for c, (q, _, _) in zip(tcases, together) if len(q) <= 60]
    cases += [c for c, q in zip(qcases, qs) if len(q) <= 60]
    mismatches = []
    if model_ok:
        budget = 3500 if tier == "quick" else 60000
        if len(cases) > budget:
            corpus_n = len(vlib.load_corpus("C07"))
            cases = cases[:corpus_n] + rng.sample(cases[corpus_n:], budget)
        bad = vlib.coq_eval_cases(cases, "C07", shard_size=250)
        for i, got in sorted(bad.items()):
            mismatches.append({"tag": cases[i][0], "input": vlib.safe_text(cases[i][1] if cases[i][0] == 3 else cases[i][1][3:]), "model": got[:30], "impl": cases[i][2][:30]})
    nontrivial = {s for s in lits if sum([s[0] in "+-", "." in s, "e" in s.lower(), bool(re.match(r"^[+-]?0\d", s))]) >= 2}
    return {
        "evaluations": len(lits) * 3 + len(sweep) + len(together), "distinct_nontrivial": len(nontrivial),
        "rule": "every well-formed literal of length <= %d over digits {0,1,9}, sign, point, e/E enumerated from the grammar (number parser, "
                "query, query with %%), random literals with up to 300 digits, several literals in one query (twins differing in one feature, side by side and multiplied), and every string of length <= %d over that alphabet "
                "plus %% for the number-parser correspondence; non-trivial = distinct literals combining at least two of sign, "
                "fraction, exponent, leading zero" % (maxlen, sweep_len),
        "samples": [wf[len(wf) // 3], wf[-5], longs[0][:80]],
        "mismatches": mismatches, "failures": failures,
        "extra": {"well_formed_enumerated": len(wf), "exhaustive": True, "exhaustive_bound": "length <= %d" % maxlen,
                  "random_long_literals": len(longs), "several_literals_in_one_query": len(together), "malformed_sweep_strings": len(sweep),
                  "model_cases_evaluated_in_coq": len(cases)},
    }


def replay(obj):
    s = obj["input"]
    base = s.rstrip("%")
    v = literal_value(base) / (100 if s.endswith("%") else 1)
    if obj.get("api") == "query":
        r = vlib.run_impl(["Q " + vlib.hx(s)])[0]
        res = r.get("results", [])
        ok = len(res) == 1 and "ok" in res[0] and (int(res[0]["ok"][0]), int(res[0]["ok"][1])) == (v.numerator, v.denominator)
    else:
        r = vlib.run_impl(["R " + vlib.hx(s)])[0]
        ok = "ok" in r and (int(r["ok"][0]), int(r["ok"][1])) == (v.numerator, v.denominator)
    print("literal %r: expected %s, got %s" % (s, v, r))
    return ok
