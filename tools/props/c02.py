"""C02 — addition, subtraction and casts are allowed exactly between commensurable units."""
from fractions import Fraction
import vlib
import pipeline
import unitlib

PROP_FILE = "props/C02.v"
LEVEL = "proof"
TRUSTED_BASE = [
    "hand-written Gallina model of powers.rs and compound.rs (Powers, base_units, factor) over the unit tables translated from src/units, "
    "src/generated on every run",
    "correspondence: anything::query vs Run.query on every generated `to`, `+`, `-` between unit expressions",
    "SI normalisation in Python (dimension vector and scale from the translated tables, independent of Compound::factor) as oracle; "
    "what a single unit word means is taken from str::parse::<Compound> (C05's subject); the structure of a unit expression (*, /, ^n) is read independently",
]
ASSUMPTIONS = ["theorems are about the model; scope: proportional units (offset scales are C09)"]

CLASSIC = [("J/N", "m"), ("V*A", "W"), ("C/s", "A"), ("N*m", "J"), ("W*s", "J"), ("Pa*m^2", "N"), ("J/s", "W"), ("kg*m/s^2", "N"),
           ("N/m^2", "Pa"), ("V/A", "Ω"), ("km/hr", "m/s"), ("mi/hr", "kt"), ("l", "dm^3"), ("ha", "m^2"), ("kWh", "J"), ("W*hr", "btu"),
           ("J/kg", "m^2/s^2"), ("N*s/kg", "m/s"), ("F*V", "C"), ("Wb/s", "V"), ("T*m^2", "Wb"), ("H*A", "Wb"), ("lm/m^2", "lx"),
           ("J/C", "V"), ("kg*m^2/s^3", "W"), ("g*cm/s^2", "N"), ("m/m", "s/s"), ("hr/s", "m/m"), ("N/N*m", "m")]


def gen_pairs(rng, V, n):
    pairs = [p for p in CLASSIC if "Ω" not in p[1]]
    # spellings whose dimensions cancel completely, against units that do have a dimension (and against each other)
    cancelling = ["Bq*s", "J/N*m", "V*A/W", "Hz*s", "N/N", "m*s/s*m", "W*s/J", "Pa*m^2/N", "C/A*s", "lm/cd", "km/m", "hr/s", "m^2/m^2"]
    for c in cancelling:
        for _ in range(3):
            pairs.append((c, V.unit_expr(rng, nfactors=rng.choice([1, 2]))))
            pairs.append((V.unit_expr(rng, nfactors=1), c))
        pairs.append((c, rng.choice(cancelling)))
    while len(pairs) < n:
        c = rng.random()
        u1 = V.unit_expr(rng)
        if c < 0.12:
            # a unit named twice with explicit powers, against the spelling where it is named once
            w = V.word(rng, prefix_prob=0)
            k = rng.choice([1, 2, 3])
            pairs.append(("%s*%s/%s^%d" % (w, u1.replace("/", "*"), w, k + 1), "%s/%s^%d" % (u1.replace("/", "*"), w, k)))
            pairs.append(("%s*%s^%d" % (w, w, k), "%s^%d" % (w, k + 1)))
        elif c < 0.45:
            pairs.append((u1, "@expand"))           # same dimension, expanded into base units
        elif c < 0.7:
            pairs.append((u1, "@expand*cancel"))    # ... with a cancelling factor added
        else:
            pairs.append((u1, V.unit_expr(rng)))    # mostly mismatching
    return pairs


def run(rng, tier, model_ok):
    V = unitlib.vocab()
    n = 350 if tier == "quick" else 5000
    raw = gen_pairs(rng, V, n)
    first = unitlib.impl_units([a for a, _ in raw])
    pairs = []
    for (a, b), na in zip(raw, first):
        if na is None or not na or V.has_offset(na):
            continue
        if b.startswith("@expand"):
            e = unitlib.expand_text(rng, V, na)
            if e is None:
                continue
            if b.endswith("cancel"):
                w = V.word(rng, prefix_prob=0)
                e = e + "*" + w + "/" + w
            b = e
        pairs.append((a, b))
    # what each spelling denotes: the words as the implementation reads them one by one, the structure as documented
    wl = sorted({w for a, b in pairs for w in unitlib.words_of(a) + unitlib.words_of(b)})
    single = dict(zip(wl, unitlib.impl_units(wl)))
    na_list = [unitlib.struct_names(V, a, single) for a, _ in pairs]
    nb_list = [unitlib.struct_names(V, b, single) for _, b in pairs]
    items = []
    stats = {"commensurable": 0, "mismatching": 0, "unreadable_unit_text": 0, "cancelling_spelling": 0}
    for (a, b), na, nb in zip(pairs, na_list, nb_list):
        if not na or not nb or na == "clash" or nb == "clash" or V.has_offset(na) or V.has_offset(nb):
            stats["unreadable_unit_text"] += 1
            continue
        comm = V.dims(na) == V.dims(nb)
        stats["commensurable" if comm else "mismatching"] += 1
        if comm and (len(na) + len(nb) > len(V.dims(na)) + len(V.dims(nb))):
            stats["cancelling_spelling"] += 1
        x = Fraction(rng.randint(1, 999), rng.choice([1, 1, 2, 4, 5, 10, 100]))
        y = Fraction(rng.randint(1, 999), rng.choice([1, 1, 2, 8, 10]))
        xs, ys = gens_dec(x), gens_dec(y)

        def cast_oracle(reply, na=na, nb=nb, comm=comm, x=x):
            if not comm:
                return None if pipeline.is_error(reply) else {"why": "dimensions differ but the cast was accepted", "expected": "error"}
            v = pipeline.single_value(reply)
            if v is None:
                return {"why": "same base dimensions but the cast was refused", "expected": "a number"}
            if V.dims(v[2]) != V.dims(nb) or V.scale(v[2]) != V.scale(nb):
                return {"why": "the result does not carry the target unit"}
            if V.si(v[0], v[1], v[2]) != x * V.scale(na):
                return {"why": "conversion changed the quantity: SI value %s, expected %s" % (V.si(v[0], v[1], v[2]), x * V.scale(na))}
            return None

        def sum_oracle(sign):
            def o(reply, na=na, nb=nb, comm=comm, x=x, y=y):
                if not comm:
                    return None if pipeline.is_error(reply) else {"why": "dimensions differ but the operation returned a number", "expected": "error"}
                v = pipeline.single_value(reply)
                if v is None:
                    return {"why": "same base dimensions but the operation was refused", "expected": "a number"}
                want = x * V.scale(na) + sign * y * V.scale(nb)
                if V.si(v[0], v[1], v[2]) != want or V.dims(v[2]) != V.dims(na):
                    return {"why": "wrong sum: SI value %s, expected %s" % (V.si(v[0], v[1], v[2]), want)}
                return None
            return o
        sp = rng.choice([" ", "  "])
        items.append(("%s %s%sto %s" % (xs, a, sp, b), cast_oracle))
        if rng.random() < 0.7:
            items.append(("%s %s + %s %s" % (xs, a, ys, b), sum_oracle(1)))
        if rng.random() < 0.5:
            items.append(("%s %s - %s %s" % (xs, a, ys, b), sum_oracle(-1)))
        if rng.random() < 0.25:
            def adopt(reply, na=na, want=None):
                v = pipeline.single_value(reply)
                if v is None or V.dims(v[2]) != V.dims(na) or V.scale(v[2]) != V.scale(na):
                    return {"why": "a plain number did not adopt the quantity's unit"}
                return None
            items.append(("%s + %s %s" % (ys, xs, a), adopt))
            items.append(("%s %s - %s" % (xs, a, ys), adopt))
    # every unit word as the second factor of a product written with a blank ("1 A as", "3 V ms", "1 N to"?): a blank multiplies,
    # whatever the word is -- also when it looks like an English word; the product is commensurable with its spelling with *
    short = sorted({w_ for v_ in V.names for w_ in V.names[v_] if len(w_) <= 3 and w_.isascii() and w_.isalpha() and w_ != "to"})
    pref1 = sorted({pf for _, pf in V.prefixes if len(pf) == 1 and pf.isascii() and pf.isalpha()})
    combos = sorted({pf + n_ for pf in pref1 for n_ in ("s", "m", "g", "A", "K", "l", "t", "h", "a", "N", "V", "W", "J", "B")})
    if tier == "quick":
        short = rng.sample(short, min(len(short), 110)) + rng.sample(combos, min(len(combos), 60)) + [w_ for w_ in ("as", "am", "at", "in", "min", "a", "h", "fs", "ms") if w_ in short or w_ in combos]
    else:
        short = short + combos
    short = sorted(set(short))
    sread2 = dict(zip(short, unitlib.impl_units(short)))
    lefts = {"A": None, "m": None, "V": None}
    lread = dict(zip(sorted(lefts), unitlib.impl_units(sorted(lefts))))
    nblank = 0
    for w_ in short:
        nw = sread2.get(w_)
        if not nw or V.has_offset(nw):
            continue
        for l_ in sorted(lefts):
            nl = lread.get(l_)
            if not nl or [x[0] for x in nl] == [x[0] for x in nw]:
                continue
            both = [tuple(x) for x in nl] + [tuple(x) for x in nw]

            def bo(reply, both=both):
                v = pipeline.single_value(reply)
                if v is None:
                    return {"why": "a product of two units written with a blank is not commensurable with the same product written with *", "expected": "a number"}
                if V.si(v[0], v[1], v[2]) != 3 * V.scale(both):
                    return {"why": "SI value %s, expected %s" % (V.si(v[0], v[1], v[2]), 3 * V.scale(both))}
                return None
            items.append(("3 %s %s to %s*%s" % (l_, w_, l_, w_), bo))
            items.append(("1 %s %s + 2 %s*%s" % (l_, w_, l_, w_), bo))
            nblank += 2
    stats["blank_products_with_every_word"] = nblank
    # operands that are the result of arithmetic: a plain number over a quantity has the inverse dimensions, a power the multiple
    simple = ["s", "m", "kg", "hr", "ft", "N", "Hz", "l"]
    sread = dict(zip(simple, unitlib.impl_units(simple)))
    for _ in range(60 if tier == "quick" else 800):
        u = rng.choice(simple)
        nu = sread[u]
        if not nu:
            continue
        p_, q_, r_ = rng.randint(1, 20), rng.randint(1, 9), rng.randint(1, 9)
        inv_dims = {k: -v for k, v in V.dims(nu).items()}
        inv_si = Fraction(p_, q_) / V.scale(nu)
        shapes = [("%d / %d %s" % (p_, q_, u), inv_si, inv_dims), ("(%d %s)^-1 * %d" % (q_, u, p_), inv_si, inv_dims),
                  ("%d * (1 / %d %s)" % (p_, q_, u), inv_si, inv_dims)]
        lhs, lsi, ldims = rng.choice(shapes)
        same = "%d %s^-1" % (r_, u)
        other = "%d %s" % (r_, u)
        for rhs, rsi, rdims in ((same, Fraction(r_) / V.scale(nu), inv_dims), (other, r_ * V.scale(nu), V.dims(nu))):
            comm = rdims == ldims

            def co(reply, comm=comm, want=lsi + rsi, dims=ldims):
                if not comm:
                    return None if pipeline.is_error(reply) else {"why": "dimensions differ but the sum was accepted", "expected": "error"}
                v = pipeline.single_value(reply)
                if v is None or V.si(v[0], v[1], v[2]) != want or V.dims(v[2]) != dims:
                    return {"why": "same base dimensions: expected SI %s with %s" % (want, dims), "expected": str(want)}
                return None
            items.append(("%s + %s" % (lhs, rhs), co))
            stats["commensurable" if comm else "mismatching"] += 1

            def cc(reply, comm=comm, want=lsi, dims=rdims):
                if not comm:
                    return None if pipeline.is_error(reply) else {"why": "dimensions differ but the cast was accepted", "expected": "error"}
                v = pipeline.single_value(reply)
                if v is None or V.si(v[0], v[1], v[2]) != want or V.dims(v[2]) != dims:
                    return {"why": "same base dimensions: expected SI %s with %s" % (want, dims), "expected": str(want)}
                return None
            items.append(("%s to %s" % (lhs, rhs.split(" ", 1)[1]), cc))
    # every unit against a representative of every dimension: a cast succeeds exactly when the dimensions agree, whatever the target
    for q, na, nt in unitlib.cast_matrix(V, rng, tier):
        comm = V.dims(na) == V.dims(nt)
        stats["commensurable" if comm else "mismatching"] += 1

        def mo(reply, comm=comm, na=na, nt=nt, q=q):
            if not comm:
                return None if pipeline.is_error(reply) else {"why": "dimensions differ but the cast was accepted", "expected": "error"}
            v = pipeline.single_value(reply)
            if v is None:
                return {"why": "same base dimensions but the cast was refused", "expected": "a number"}
            x = int(q.split(" ")[0])
            if V.dims(v[2]) != V.dims(nt) or V.si(v[0], v[1], v[2]) != x * V.scale(na):
                return {"why": "conversion changed the quantity: SI value %s, expected %s" % (V.si(v[0], v[1], v[2]), x * V.scale(na))}
            return None
        items.append((q, mo))
    corpus = vlib.load_corpus("C02")
    items = [(q, None) for q in corpus] + items
    replies, failures, mismatches, ncoq = pipeline.run_queries(items, "C02", rng, tier, model_ok, budget_quick=2500)
    distinct = {q for q, _ in items}
    return {
        "evaluations": len(items), "distinct_nontrivial": len(distinct),
        "rule": "pairs of unit expressions over the whole typeable vocabulary (every unit name and alias, prefixes, powers -3..3, products and "
                "quotients of up to four factors): a hand-picked list of derived-vs-expanded spellings (J/N vs m, V*A vs W, C/s vs A ...), random "
                "expressions against their expansion into base units with and without a cancelling factor, and random mismatching pairs; each "
                "through `to`, `+`, `-` and plain-number operands; non-trivial = distinct queries",
        "samples": [q for q, _ in items[len(corpus) + 3:len(corpus) + 60:10]],
        "mismatches": mismatches, "failures": failures,
        "extra": dict(stats, model_cases_evaluated_in_coq=ncoq, exhaustive=False),
    }


def gens_dec(x):
    n, d = x.numerator, x.denominator
    k = 0
    while (x * 10 ** k).denominator != 1:
        k += 1
    m = int(x * 10 ** k)
    s = str(m).rjust(k + 1, "0")
    return s[:-k] + "." + s[-k:] if k else s


def replay(obj):
    q = obj["input"]
    r = vlib.run_impl(["Q " + vlib.hx(q)])[0]
    print("query %r -> %s; recorded failure: %s" % (q, r.get("results"), obj.get("why")))
    if obj.get("expected") == "error":
        return pipeline.is_error(r)
    return pipeline.single_value(r) is not None and obj.get("expected") == "a number"
