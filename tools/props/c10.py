"""C10 — floor, ceil, round return the mathematically defined integer or decimal."""
from fractions import Fraction
import math
import vlib
import pipeline

PROP_FILE = "props/C10.v"
LEVEL = "proof"
TRUSTED_BASE = [
    "hand-written Gallina model of eval/builtin.rs and Rational::{floor,ceil,round} (num-rational 0.4.2 transcribed with truncating "
    "quot/rem) in coq/model/Rat.v and Eval.v",
    "correspondence: anything::query vs Run.query on every generated call",
    "independent definition of floor/ceil/round-half-away in Python fractions as the specification oracle",
]
ASSUMPTIONS = ["theorems are about the model; the tie to the Rust code is the correspondence on this run's inputs"]


def half_away(x):
    f = math.floor(abs(x) + Fraction(1, 2))
    return f if x >= 0 else -f


def dec_text(x):
    """A terminating decimal as literal text, or a parenthesised quotient."""
    n, d = x.numerator, x.denominator
    dd = d
    while dd % 2 == 0:
        dd //= 2
    while dd % 5 == 0:
        dd //= 5
    if dd != 1:
        return "(%d / %d)" % (n, d)
    k = 0
    while (x * 10 ** k).denominator != 1:
        k += 1
    m = abs(int(x * 10 ** k))
    s = str(m).rjust(k + 1, "0")
    out = s[:-k] + "." + s[-k:] if k else s
    return ("-" if x < 0 else "") + out


UNITS = ["", "", " m", " kg", " km/hr", " s^-1", " N", " °C"]
UNIT_NAMES = {"": [], " m": [["Meter", 1, 0]], " kg": [["KiloGram", 1, 0]], " km/hr": None, " s^-1": [["Second", -1, 0]], " N": None, " °C": None}


def gen(rng, tier):
    xs = []
    for n in range(-8, 9):
        xs += [Fraction(n), Fraction(2 * n + 1, 2), Fraction(n) + Fraction(1, 10 ** 6), Fraction(n) - Fraction(1, 10 ** 6),
               Fraction(2 * n + 1, 2) + Fraction(1, 10 ** 9), Fraction(2 * n + 1, 2) - Fraction(1, 10 ** 9)]
    # around the widths of machine integers: a shortcut through i32 / i64 / u64 / f64 / i128 shows at its edge
    for w in (31, 32, 53, 63, 64, 127, 128):
        for off in (-2, -1, 0, 1):
            for fr in (Fraction(1, 2), Fraction(7, 10), Fraction(1, 3), Fraction(0)):
                for sg in (1, -1):
                    xs.append(sg * (Fraction(2 ** w + off) - fr))
    for d in (2, 10, 3):
        xs += [Fraction(2 ** 63 - 1, d), Fraction(-(2 ** 63), d), Fraction(2 ** 63 - d + 1, d), Fraction(2 ** 64 - 1, d), Fraction(2 ** 31 - 1, d)]
    k = 150 if tier == "quick" else 2500
    for _ in range(k):
        c = rng.random()
        if c < 0.4:
            x = Fraction(rng.randint(-10 ** 9, 10 ** 9), 10 ** rng.randint(0, 8))
        elif c < 0.7:
            x = Fraction(rng.randint(-10 ** 6, 10 ** 6), rng.randint(1, 999))
        else:
            # within one unit in the last place of a rounding boundary
            n = rng.randint(-6, 6)
            b = Fraction(2 * rng.randint(-5000, 5000) + 1, 2) / Fraction(10) ** n
            x = b + rng.choice([-1, 0, 1]) * Fraction(1, 10 ** (abs(n) + rng.randint(3, 9)))
        xs.append(x)
    return xs


def digits_unit_oracle(reply, x, n, u1):
    if pipeline.is_error(reply):
        return None                      # refusing a digits argument with a unit is fine; answering with its unit is not
    v = pipeline.single_value(reply)
    want = Fraction(half_away(x * Fraction(10) ** n)) / Fraction(10) ** n
    if v is None or Fraction(v[0], v[1]) != want:
        return {"why": "round gives %s, expected %s" % (v, want)}
    if v[2] != UNIT_NAMES[u1]:
        return {"why": "the result carries the unit %s, the first argument has %s" % (v[2], UNIT_NAMES[u1])}
    return None


def run(rng, tier, model_ok):
    xs = gen(rng, tier)
    items = []
    meta = []

    def add(q, fn, x, n, unit):
        def oracle(reply, fn=fn, x=x, n=n, unit=unit, q=q):
            v = pipeline.single_value(reply)
            if fn == "floor":
                want = Fraction(math.floor(x))
            elif fn == "ceil":
                want = Fraction(math.ceil(x))
            elif n is None:
                want = Fraction(half_away(x))
            else:
                want = Fraction(half_away(x * Fraction(10) ** n)) / Fraction(10) ** n
            if v is None:
                return {"why": "%s should be %s but is not a single value" % (q, want), "expected": str(want)}
            if Fraction(v[0], v[1]) != want:
                return {"why": "%s = %s, expected %s" % (q, Fraction(v[0], v[1]), want), "expected": str(want)}
            exp_unit = UNIT_NAMES[unit]
            if exp_unit is not None and v[2] != exp_unit:
                return {"why": "%s: unit %s not carried through (got %s)" % (q, exp_unit, v[2])}
            if exp_unit is None and v[2] == []:
                return {"why": "%s: the unit of the argument was lost" % q}
            return None
        items.append((q, oracle))
        meta.append((fn, n, unit))
    for x in xs:
        t = dec_text(x)
        u = rng.choice(UNITS)
        if u == " °C" and t.startswith("("):
            u = ""
        arg = t + u if not t.startswith("(") else t
        if t.startswith("("):
            u = ""
        sp = rng.choice(["", "", " "])
        add("floor(%s%s%s)" % (sp, arg, sp), "floor", x, None, u)
        add("ceil(%s)" % arg, "ceil", x, None, u)
        add("round(%s)" % arg, "round", x, None, u)
        n = rng.randint(-6, 6)
        add("round(%s,%s%d%s)" % (arg, rng.choice(["", " "]), n, sp), "round", x, n, u)
    # exact ties at the digit that is rounded to, of both signs, and their neighbours one part in a million away
    for n in range(-3, 5):
        for mth in (-7, -3, -1, 0, 1, 2, 12):
            b = Fraction(2 * mth + 1, 2) / Fraction(10) ** n
            for x in (b, b + b / 10 ** 6, b - b / 10 ** 6):
                u = rng.choice(["", " m"])
                t = dec_text(x)
                arg = t + u if not t.startswith("(") else t
                add("round(%s, %d)" % (arg, n), "round", x, n, u if not t.startswith("(") else "")
    # the unit of the result is the unit of the first argument, whatever the digits argument carries
    for _ in range(30 if tier == "quick" else 400):
        x = rng.choice(xs)
        n = rng.randint(-3, 4)
        t = dec_text(x)
        u1 = rng.choice(["", "", " m", " kg"]) if not t.startswith("(") else ""
        u2 = rng.choice([" m", " s", " kg", " km"])
        items.append(("round(%s%s, %d%s)" % (t, u1, n, u2), (lambda x, n, u1: (lambda reply: digits_unit_oracle(reply, x, n, u1)))(x, n, u1)))
        meta.append(("round", n, u1))
    # a hair away from a tie: closer than binary floating point resolves
    for n in range(-2, 4):
        for mth in (-3, 0, 2, 12, 1249):
            b = Fraction(2 * mth + 1, 2) / Fraction(10) ** n
            for k in (17, 20, 30):
                for x in (b - Fraction(1, 10 ** k), b + Fraction(1, 10 ** k)):
                    t = dec_text(x)
                    add("round(%s, %d)" % (t, n), "round", x, n, "")
                    if n == 0:
                        add("round(%s)" % t, "round", x, None, "")
                        add("floor(%s)" % t, "floor", x, None, "")
                        add("ceil(%s)" % t, "ceil", x, None, "")
    # calls inside the arguments of calls, in every argument position: the digits argument computed by another function, the
    # value computed by another function, both; the inner call must not disturb what the outer call has already collected
    fns = {"floor": math.floor, "ceil": math.ceil, "round": half_away}
    for _ in range(60 if tier == "quick" else 800):
        x = rng.choice(xs)
        t = dec_text(x)
        u = rng.choice(["", "", " m"]) if not t.startswith("(") else ""
        f2 = rng.choice(sorted(fns))
        y = Fraction(rng.randint(-45, 45), 10)
        n = int(fns[f2](y))
        add("round(%s%s, %s(%s))" % (t, u, f2, dec_text(y)), "round", x, n, u)
        f1 = rng.choice(sorted(fns))
        inner = Fraction(fns[f1](x))
        add("round(%s(%s%s), %s(%s))" % (f1, t, u, f2, dec_text(y)), "round", inner, n, u)
        add("%s(round(%s%s, %s(%s)))" % (f1, t, u, f2, dec_text(y)), f1, Fraction(half_away(x * Fraction(10) ** n)) / Fraction(10) ** n, None, u)
    def must_fail(reply):
        return None if pipeline.is_error(reply) else {"why": "a wrong number of arguments was accepted"}
    arity_qs = ["ceil( )", "floor(2.5, ceil(0.5))", "round(2.5, 1, floor(3.5))", "ceil(floor(1.5), 2)", "floor(1, round(2, ceil(0.5)))", "round(floor(1), ceil(2), round(3))"]
    argpool = ["1", "1.5", "2 m", "0", "1.2345", "(1 + 1)", "3"]
    for fn, okn in (("floor", {1}), ("ceil", {1}), ("round", {1, 2}), ("sin", {1}), ("cos", {1})):
        for k in range(0, 6):
            if k in okn:
                continue
            for _ in range(3):
                arity_qs.append("%s(%s)" % (fn, ", ".join(rng.choice(argpool) for _ in range(k))))
    for q in arity_qs:
        items.append((q, must_fail))
        meta.append(("arity", None, ""))
    corpus = vlib.load_corpus("C10")
    items = [(q, None) for q in corpus] + items
    replies, failures, mismatches, ncoq = pipeline.run_queries(items, "C10", rng, tier, model_ok)
    distinct = {q for (q, _), m in zip(items[len(corpus):], meta) if m[0] != "arity"}
    hist = {}
    for m in meta:
        key = m[0] + ("" if m[1] is None else ",n") + (" unit" if m[2] else "")
        hist[key] = hist.get(key, 0) + 1
    return {
        "evaluations": len(items), "distinct_nontrivial": len(distinct),
        "rule": "rationals: integers, exact halves, values within 1e-6/1e-9 of integers and halves, random decimals and quotients, values "
                "within one unit in the last place of a round(x, n) boundary; each through floor, ceil, round and round(x, n) with n in -6..6, "
                "with and without a unit, calls nested in every argument position, plus wrong arities (also with calls as arguments); non-trivial = distinct calls with a correct arity",
        "samples": [q for q, _ in items[len(corpus) + 40:len(corpus) + 46]],
        "mismatches": mismatches, "failures": failures,
        "extra": {"call_histogram": hist, "model_cases_evaluated_in_coq": ncoq, "exhaustive": False},
    }


def replay(obj):
    q = obj["input"]
    r = vlib.run_impl(["Q " + vlib.hx(q)])[0]
    print("query %r -> %s (expected %s)" % (q, r.get("results"), obj.get("expected")))
    if "expected" in obj:
        v = pipeline.single_value(r)
        return v is not None and Fraction(v[0], v[1]) == Fraction(obj["expected"])
    return pipeline.is_error(r)
