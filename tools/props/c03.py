"""C03 — unit conversion preserves the physical quantity."""
from fractions import Fraction
import vlib
import pipeline
import unitlib
from props.c02 import gens_dec

PROP_FILE = "props/C03.v"
LEVEL = "proof"
TRUSTED_BASE = [
    "hand-written Gallina model of Compound::factor / apply_conversion over the translated unit and prefix tables",
    "correspondence: anything::query vs Run.query on every generated conversion",
    "SI normalisation in Python (scale and dimensions from the translated tables) plus direct relations between the implementation's own "
    "answers (there-and-back, via an intermediate unit, scaling) as oracle",
]
ASSUMPTIONS = ["theorems are about the model; scope: proportional units (offset scales are C09); table values themselves are C05"]


_SINGLE = {}


def read_units(V, texts):
    """What each unit text denotes: single words as the implementation reads them, the structure (* / ^n) read independently."""
    wl = sorted({w for t in texts for w in unitlib.words_of(t)})
    new = [w for w in wl if w not in _SINGLE]              # single words are read once per run (one harness process per batch)
    if new:
        _SINGLE.update(zip(new, unitlib.impl_units(new)))
    single = {w: _SINGLE[w] for w in wl}
    out = {}
    for t in texts:
        sn = unitlib.struct_names(V, t, single)
        out[t] = None if sn in (None, "clash") else sn
    return out


def same_unit(a, b):
    return sorted(map(list, a)) == sorted(map(list, b))


def run(rng, tier, model_ok):
    V = unitlib.vocab()
    items = []          # (query, oracle)
    relations = []      # (kind, indices, data) checked after the run
    stats = {"round_trip": 0, "via": 0, "linear": 0, "prefix": 0, "every_unit": 0, "power_product": 0}

    def add(q, oracle=None):
        items.append((q, oracle))
        return len(items) - 1

    def si_oracle(x, na, nb):
        def o(reply):
            v = pipeline.single_value(reply)
            if v is None:
                return {"why": "commensurable conversion refused", "expected": "a number"}
            if not same_unit(v[2], nb) or V.si(v[0], v[1], v[2]) != x * V.scale(na):
                return {"why": "conversion changed the quantity: SI %s, expected %s" % (V.si(v[0], v[1], v[2]), x * V.scale(na))}
            return None
        return o
    # ---- phase 1: candidate texts, parsed by the implementation in one batch
    variants = sorted(V.names)
    unit_texts = []
    for v in variants:
        if V.variant_unit.get(v) in V.offset_units:
            continue
        for name in (V.names[v] if tier == "thorough" else [rng.choice(V.names[v])]):
            unit_texts.append(name)
    k = 120 if tier == "quick" else len(V.prefixes) * len(variants)
    combos = [(p, v) for p in V.prefixes for v in variants if V.variant_unit.get(v) not in V.offset_units]
    rng.shuffle(combos)
    prefix_words = [(e, letter + name, name) for (e, letter), v in combos[:k] for name in [rng.choice(V.names[v])]]
    n = 150 if tier == "quick" else 2500
    exprs = [V.unit_expr(rng) for _ in range(n)]
    # a unit named more than once inside one expression, with explicit powers
    for _ in range(n // 6):
        w = V.word(rng, prefix_prob=0.3)
        w2 = V.word(rng, prefix_prob=0)
        exprs += [rng.choice(["%s*%s^2" % (w, w), "%s^2*%s^-1" % (w, w), "%s*%s/%s^3" % (w, w2, w), "%s^3/%s^2*%s" % (w, w, w2), "%s*%s*%s^2" % (w2, w, w)])]
    allt = unit_texts + [w for _, w, _ in prefix_words] + [nm for _, _, nm in prefix_words] + exprs
    parsed = read_units(V, allt)
    # ---- phase 2: expansions into base units, parsed in one batch
    exp1 = {}
    for t in unit_texts + exprs:
        na = parsed.get(t)
        if na and not V.has_offset(na):
            e1, e2 = unitlib.expand_text(rng, V, na), unitlib.expand_text(rng, V, na)
            if e1 and e2:
                exp1[t] = (e1, e2)
    ex_texts = sorted({e for pair in exp1.values() for e in pair})
    parsed.update(read_units(V, ex_texts))
    # every unit as source and as target, against its expansion into base units
    for name in unit_texts:
        if name not in exp1:
            continue
        na, e = parsed[name], exp1[name][0]
        nb = parsed.get(e)
        if not nb:
            continue
        x = Fraction(rng.randint(1, 9999), rng.choice([1, 10, 100, 1000]))
        xs = gens_dec(x)
        add("%s %s to %s" % (xs, name, e), si_oracle(x, na, nb))
        add("%s %s to %s" % (xs, e, name), si_oracle(x, nb, na))
        stats["every_unit"] += 2
    # ... and raised to small powers on both sides (the factor is raised, also when it is huge or tiny)
    pw_texts = {}
    for name in unit_texts:
        if name in exp1 and len(parsed[name]) == 1 and parsed[name][0][1] == 1:
            base_words = [(w.split("^")[0], int(w.split("^")[1]) if "^" in w else 1) for w in exp1[name][0].split("*")]
            for k in (2, 3, -1, -2, -3):
                pw_texts[(name, k)] = ("%s^%d" % (name, k), "*".join("%s^%d" % (w, q * k) for w, q in base_words))
    more = sorted({t for pair in pw_texts.values() for t in pair})
    parsed.update(read_units(V, more))
    for (name, k), (a, b) in sorted(pw_texts.items()):
        na, nb = parsed.get(a), parsed.get(b)
        if not na or not nb:
            continue
        x = Fraction(rng.randint(1, 99), rng.choice([1, 10]))
        xs = gens_dec(x)
        if tier == "quick" and rng.random() < 0.5:
            continue
        add("%s %s to %s" % (xs, a, b), si_oracle(x, na, nb))
        add("%s %s to %s" % (xs, b, a), si_oracle(x, nb, na))
        stats["every_unit_powers"] = stats.get("every_unit_powers", 0) + 2
    # ratios and products of different units of one dimension: the bases cancel, the factors and prefixes must not
    groups = [["m", "ft", "in", "mi", "yd"], ["s", "min", "hr", "dy"], ["J", "btu", "eV"], ["kg", "lb", "oz"], ["l", "gal", "tsp"], ["N"], ["W"]]
    gw = sorted({w for g in groups for w in g})
    gread = read_units(V, gw)
    pfx = ["", "", "k", "m", "M"]
    for _ in range(80 if tier == "quick" else 1500):
        g = rng.choice([g for g in groups if len(g) >= 2])
        u1, u2, u3, u4 = (rng.choice(pfx) + rng.choice(g) for _ in range(4))
        wr = read_units(V, [u1, u2, u3, u4, g[0]])
        if any(not wr.get(w) or len(wr[w]) != 1 or V.dims(wr[w]) != V.dims(wr[g[0]]) for w in (u1, u2, u3, u4)):
            continue                      # prefix + name happens to spell another word (min, kin, ktsp): C05's subject
        a, b = "%s/%s" % (u1, u2), "%s/%s" % (u3, u4)
        if rng.random() < 0.3:
            extra_u = rng.choice(["m", "s", "kg"])
            a, b = a + "*" + extra_u, b + "*" + extra_u
        rr = read_units(V, [a, b])
        na, nb = rr.get(a), rr.get(b)
        if not na or not nb:
            continue
        x = Fraction(rng.randint(1, 99), rng.choice([1, 10]))
        add("%s %s to %s" % (gens_dec(x), a, b), si_oracle(x, na, nb))
        stats["ratios"] = stats.get("ratios", 0) + 1
    # the same unit names on both sides with other exponents (ft/in to in/ft, ft^2/in to in^2/ft, hr/s to s/hr): equal sets of
    # names do not make the factors cancel
    for g in [g for g in groups if len(g) >= 2]:
        for u1 in g:
            for u2 in g:
                if u1 == u2 or (tier == "quick" and rng.random() < 0.5):
                    continue
                for a, b in (("%s/%s" % (u1, u2), "%s/%s" % (u2, u1)), ("%s^2/%s" % (u1, u2), "%s^2/%s" % (u2, u1)),
                             ("%s^3/%s^2" % (u1, u2), "%s*%s^0" % (u2, u1)), ("k%s*%s/%s^2" % (u1, u2, u2), "%s/k%s" % (u2, u2))):
                    rr = read_units(V, [a, b])
                    na, nb = rr.get(a), rr.get(b)
                    if not na or not nb or V.dims(na) != V.dims(nb):
                        continue
                    x = Fraction(rng.randint(1, 99), rng.choice([1, 10]))
                    add("%s %s to %s" % (gens_dec(x), a, b), si_oracle(x, na, nb))
                    stats["same_names_other_powers"] = stats.get("same_names_other_powers", 0) + 1
    # a cast never changes what is measured: towards a unit of the reciprocal dimension (a period to a frequency, a pace to a
    # speed, a consumption to a range) there is nothing to preserve, so it is refused; if it is accepted it is held to the same
    # laws as every conversion (the SI value is kept, scaling the input scales the output, a prefix is its power of ten)
    recip = [("s", "Bq"), ("s", "Hz"), ("min", "Hz"), ("m", "1/m"), ("min/km", "km/hr"), ("s/m", "m/s"), ("mi/gal", "l/km"), ("hr", "1/s"),
             ("ms", "kHz"), ("kg/m^3", "m^3/kg"), ("N/m", "m/N"), ("Bq", "s"), ("km/hr", "min/km"), ("1/m", "km")]
    for a, b in recip:
        rr = read_units(V, [a, b])
        na, nb = rr.get(a), rr.get(b)
        if not na or not nb or V.dims(na) == V.dims(nb):
            continue
        for x in (Fraction(1), Fraction(2), Fraction(4), Fraction(5), Fraction(10), Fraction(1, 2)):
            def o(reply, x=x, na=na, nb=nb, a=a, b=b):
                if pipeline.is_error(reply):
                    return None
                v = pipeline.single_value(reply)
                if v is None or not same_unit(v[2], nb) or V.dims(na) != V.dims(nb) or V.si(v[0], v[1], v[2]) != x * V.scale(na):
                    return {"why": "%s and %s measure different things (reciprocal dimensions): the cast must be refused; it answered %s" % (a, b, v)}
                return None
            add("%s %s to %s" % (gens_dec(x), a, b), o)
            add("(%s %s to %s) to %s" % (gens_dec(x), a, b, a), o if False else (lambda reply: None if pipeline.is_error(reply) else {"why": "a cast between reciprocal dimensions was accepted"}))
            stats["reciprocal_casts"] = stats.get("reciprocal_casts", 0) + 2
    # a looked-up fact is a quantity like any other: stored data reaches the conversion through the decoder, not through the unit
    # parser; converting it (to base units, to another prefix, there and back) and adding to it preserve what it measures
    import qcorr
    fq = []
    for c in qcorr.tables()["shipped"]:
        ws_ = c["tokens"]
        if 1 <= len(ws_) <= 4 and all(w_.isalpha() and w_.islower() and w_ != "to" for w_ in ws_) and c["unit"]:
            fq.append(" ".join(ws_))
    fq = sorted(set(fq))
    rng.shuffle(fq)
    fq = fq[: (40 if tier == "quick" else 400)] + [f for f in ("radius of earth", "size of the observable universe", "earth radius", "mass of earth") if f not in fq[:40]]
    krep = vlib.run_impl(["K %s 1" % vlib.hx(f) for f in fq])
    nfact = 0
    for f, k in zip(fq, krep):
        if not isinstance(k, list) or not k or not k[0].get("unit") or V.has_offset(k[0]["unit"]) or k[0].get("tokens") != f.split(" "):
            continue
        kn = [tuple(x) for x in k[0]["unit"]]
        want_si = V.si(k[0]["value"][0], k[0]["value"][1], kn)
        tgt = unitlib.expand_text(rng, V, kn)
        if not tgt:
            continue
        tn = read_units(V, [tgt]).get(tgt)
        if not tn or V.dims(tn) != V.dims(kn):
            continue

        def fo(reply, want_si=want_si, mult=Fraction(1), add_si=Fraction(0)):
            v = pipeline.single_value(reply)
            if v is None:
                return {"why": "a conversion of a looked-up fact between commensurable units was refused"}
            if V.si(v[0], v[1], v[2]) != want_si * mult + add_si:
                return {"why": "the fact measures %s in SI units, after the operation %s (expected %s)" % (want_si, V.si(v[0], v[1], v[2]), want_si * mult + add_si)}
            return None
        add("%s to %s" % (f, tgt), fo)
        add("%s to %s to %s" % (f, tgt, tgt), fo)
        add("%s * 2 to %s" % (f, tgt), (lambda reply, fo=fo: fo(reply, mult=Fraction(2))))
        add("%s + 1 %s" % (f, tgt), (lambda reply, fo=fo, tn=tn: fo(reply, add_si=V.scale(tn))))
        add("1 %s + %s" % (tgt, f), (lambda reply, fo=fo, tn=tn: fo(reply, add_si=V.scale(tn))))
        nfact += 1
    stats["facts_converted"] = nfact
    # a target unit whose spelling cancels to nothing (m/m, s/s): the known finding `cast-to-cancelling-unit` -- Compound::factor
    # returns at once when either side has no names, so the quantity keeps its number and loses its unit and its factor
    for q, want in (("1 hr/s to m/m", Fraction(3600)), ("1 m/in to s/s", Fraction(5000, 127)), ("2 km/m to 1/1", None)):
        def co(reply, want=want, q=q):
            v = pipeline.single_value(reply)
            if want is None or pipeline.is_error(reply):
                return None
            if v is None or V.si(v[0], v[1], v[2]) != want:
                return {"why": "a cast to a unit that cancels to nothing dropped the conversion factor: %s answers %s, the quantity is %s" % (q, v, want),
                        "key": "cast-to-cancelling-unit"}
            return None
        add(q, co)
    for q in ("5 m to s/s", "3 kg to m/m"):
        add(q, (lambda reply, q=q: None if pipeline.is_error(reply) else
                {"why": "a quantity with a dimension was cast to a unit that cancels to nothing and lost its unit: %s" % q, "key": "cast-to-cancelling-unit"}))
    # prefixes: exactly the power of ten
    for e, word, name in prefix_words:
        na, nb = parsed.get(word), parsed.get(name)
        if not na or not nb or len(na) != 1 or len(nb) != 1 or na[0][0] != nb[0][0] or na[0][2] - nb[0][2] != e:
            continue            # the word reads as something else than prefix + this name: C05's subject
        stats["prefix"] += 1

        def o(reply, e=e, nb=nb):
            v = pipeline.single_value(reply)
            if v is None or Fraction(v[0], v[1]) != Fraction(10) ** e or not same_unit(v[2], nb):
                return {"why": "prefix is not exactly 10^%d" % e, "expected": str(Fraction(10) ** e)}
            return None
        add("1 %s to %s" % (word, name), o)
    # round trips, via, linearity over random commensurable spellings
    for a in exprs:
        if a not in exp1:
            continue
        na = parsed[a]
        b, c = exp1[a]
        nb, nc = parsed.get(b), parsed.get(c)
        if not nb or not nc:
            continue
        x = Fraction(rng.randint(1, 99999), rng.choice([1, 10, 100, 1000]))
        xs = gens_dec(x)
        kf = rng.choice([2, 3, 10, 7])
        i1 = add("%s %s to %s to %s" % (xs, a, b, a))
        relations.append(("round_trip", [i1], (x, na)))
        i2 = add("%s %s to %s to %s" % (xs, a, b, c))
        i3 = add("%s %s to %s" % (xs, a, c), si_oracle(x, na, nc))
        relations.append(("via", [i2, i3], None))
        i4 = add("%s %s to %s" % (xs, a, b), si_oracle(x, na, nb))
        i5 = add("%d * %s %s to %s" % (kf, xs, a, b))
        relations.append(("linear", [i4, i5], kf))
        stats["round_trip"] += 1
        stats["via"] += 1
        stats["linear"] += 1
    # a prefix is its power of ten on every unit, the temperature scales included (the reading is scaled before the zero point moves)
    from props import c09
    for q, o in c09.prefixed_items(rng, tier):
        add(q, o)
        stats["prefixed_temperature"] = stats.get("prefixed_temperature", 0) + 1
    corpus = vlib.load_corpus("C03")
    off = len(corpus)
    items2 = [(q, None) for q in corpus] + items
    replies, failures, mismatches, ncoq = pipeline.run_queries(items2, "C03", rng, tier, model_ok, budget_quick=1500)
    for kind, idx, data in relations:
        vals = [pipeline.single_value(replies[off + i]) for i in idx]
        qs = [items[i][0] for i in idx]
        if any(v is None for v in vals):
            failures.append({"input": qs[0], "why": "%s: a commensurable conversion was refused" % kind, "related": qs})
            continue
        if kind == "round_trip":
            x, na = data
            if Fraction(vals[0][0], vals[0][1]) != x or not same_unit(vals[0][2], na):
                failures.append({"input": qs[0], "why": "there and back gives %s/%s, not the original %s" % (vals[0][0], vals[0][1], x)})
        elif kind == "via":
            if vals[0] != vals[1]:
                failures.append({"input": qs[0], "why": "via an intermediate unit differs from the direct conversion", "related": qs})
        elif kind == "linear":
            if Fraction(vals[1][0], vals[1][1]) != data * Fraction(vals[0][0], vals[0][1]):
                failures.append({"input": qs[1], "why": "scaling the input by %d does not scale the output" % data, "related": qs})
    return {
        "evaluations": len(items2), "distinct_nontrivial": len({q for q, _ in items}),
        "rule": "every typeable unit as source and as target against its expansion into base units; prefix x unit words against the bare unit; "
                "random unit expressions (prefixes, powers -3..3, up to four factors) converted there and back, via an intermediate spelling, and "
                "with a scaled input; non-trivial = distinct queries",
        "samples": [q for q, _ in items[5:400:70]],
        "mismatches": mismatches, "failures": failures,
        "extra": dict(stats, model_cases_evaluated_in_coq=ncoq, exhaustive=False),
    }


def replay(obj):
    q = obj["input"]
    r = vlib.run_impl(["Q " + vlib.hx(q)])[0]
    print("query %r -> %s; recorded failure: %s" % (q, r.get("results"), obj.get("why")))
    return False if obj.get("why") else True
