"""C04 — products, quotients and integer powers of quantities are dimensionally exact."""
from fractions import Fraction
import vlib
import pipeline
import unitlib
from props.c02 import gens_dec

PROP_FILE = "props/C04.v"
LEVEL = "proof"
TRUSTED_BASE = [
    "hand-written Gallina model of Compound::mul with reconstruct / bases_match / inner_match, Compound::pow and eval's mul/div/pow over the "
    "translated unit tables",
    "correspondence: anything::query vs Run.query (debug assertions on) on every generated expression, unit by unit",
    "SI evaluation of the expression tree in Python (value * scale, dimension vector) as oracle, independent of which derived units the "
    "tool chooses to display",
]
ASSUMPTIONS = ["theorems are about the model; scope: proportional units; how a unit expression is read is C05's subject"]


def add_dims(a, b, k=1):
    d = dict(a)
    for x, p in b.items():
        d[x] = d.get(x, 0) + k * p
    return {x: p for x, p in d.items() if p}


def gen_tree(rng, V, depth, leaves):
    if depth <= 0 or rng.random() < 0.3:
        x = Fraction(rng.randint(1, 999), rng.choice([1, 1, 2, 5, 10]))
        if rng.random() < 0.15:
            return ("plain", x)
        u = V.unit_expr(rng, nfactors=rng.choice([1, 1, 2, 3]))
        leaves.append(u)
        return ("qty", x, u)
    c = rng.random()
    if c < 0.2:
        return ("pow", gen_tree(rng, V, depth - 1, leaves), rng.choice([0, 1, 2, 3, -1, -2, 2]))
    return (rng.choice("*/*"), gen_tree(rng, V, depth - 1, leaves), gen_tree(rng, V, depth - 1, leaves))


def render(t, rng):
    k = t[0]
    if k == "plain":
        return gens_dec(t[1])
    if k == "qty":
        return "%s%s%s" % (gens_dec(t[1]), rng.choice(["", " "]), t[2])
    if k == "pow":
        return "(%s)%s^%s%d" % (render(t[1], rng), rng.choice(["", " "]), rng.choice(["", " "]), t[2])
    l, r = render(t[1], rng), render(t[2], rng)
    if t[1][0] not in ("plain", "qty") or rng.random() < 0.2:
        l = "(%s)" % l
    if t[2][0] not in ("plain", "qty") or rng.random() < 0.2:
        r = "(%s)" % r
    sp1 = " " if l[-1] != ")" else rng.choice(["", " "])          # a unit swallows a directly following operator
    return "%s%s%s%s%s" % (l, sp1, k, rng.choice(["", " "]), r)


def si_eval(t, V, parsed):
    """(SI value, dimensions) or None when a division by zero occurs; raises KeyError when a unit text is unreadable."""
    k = t[0]
    if k == "plain":
        return t[1], {}
    if k == "qty":
        names = parsed[t[2]]
        if not names or V.has_offset(names):
            raise KeyError(t[2])
        return t[1] * V.scale(names), V.dims(names)
    if k == "pow":
        a = si_eval(t[1], V, parsed)
        if a is None:
            return None
        n = t[2]
        if n == 0:
            return Fraction(1), {}
        if a[0] == 0 and n < 0:
            return None
        return a[0] ** n, {x: p * n for x, p in a[1].items()}
    a, b = si_eval(t[1], V, parsed), si_eval(t[2], V, parsed)
    if a is None or b is None:
        return None
    if k == "*":
        return a[0] * b[0], add_dims(a[1], b[1])
    if b[0] == 0:
        return None
    return a[0] / b[0], add_dims(a[1], b[1], -1)


def run(rng, tier, model_ok):
    V = unitlib.vocab()
    n = 500 if tier == "quick" else 8000
    trees, leaves = [], []
    for _ in range(n):
        trees.append(gen_tree(rng, V, rng.randint(1, 3 if tier == "quick" else 4), leaves))
    # integer power = repeated multiplication, zero power dimensionless
    extra = []
    for _ in range(60 if tier == "quick" else 800):
        x = Fraction(rng.randint(1, 99), rng.choice([1, 2, 10]))
        u = V.unit_expr(rng, nfactors=rng.choice([1, 2]))
        leaves.append(u)
        k = rng.choice([2, 3, 4])
        q = ("qty", x, u)
        rep = q
        for _ in range(k - 1):
            rep = ("*", rep, q)
        extra.append((("pow", q, k), rep))
        extra.append((("pow", q, 0), ("plain", Fraction(1))))
    # boundary magnitudes: zero, one and minus one with units under every small power and in products and quotients
    for _ in range(25 if tier == "quick" else 300):
        u = V.unit_expr(rng, nfactors=rng.choice([1, 1, 2]))
        u2 = V.unit_expr(rng, nfactors=1)
        leaves += [u, u2]
        for x in (Fraction(0), Fraction(1), Fraction(-1)):
            q = ("qty", x, u)
            for k in (1, 2, 3, -1, -2):
                rep = q
                for _ in range(abs(k) - 1):
                    rep = ("*", rep, q)
                if k < 0:
                    rep = ("/", ("plain", Fraction(1)), rep)
                extra.append((("pow", q, k), rep))
            extra.append((("*", q, ("qty", Fraction(0), u2)), ("*", ("qty", Fraction(0), u2), q)))
            extra.append((("/", ("qty", Fraction(0), u2), ("qty", Fraction(7), u)), ("*", ("qty", Fraction(0), u2), ("pow", ("qty", Fraction(7), u), -1))))
    parsed = dict(zip(sorted(set(leaves)), unitlib.impl_units(sorted(set(leaves)))))
    items = []
    stats = {"skipped_unreadable_unit": 0, "expected_error": 0, "with_power": 0, "reconstructed_derived_unit": 0}

    def add(t):
        try:
            want = si_eval(t, V, parsed)
        except KeyError:
            stats["skipped_unreadable_unit"] += 1
            return False
        q = render(t, rng)
        if "^" in q:
            stats["with_power"] += 1

        def o(reply, want=want):
            if want is None:
                stats["expected_error"] += 1
                return None if pipeline.is_error(reply) else {"why": "division by zero accepted", "expected": "error"}
            v = pipeline.single_value(reply)
            if v is None:
                return {"why": "a product/quotient/power of quantities was refused", "expected": "SI %s" % want[0]}
            if any(name.startswith("D") for name, _, _ in v[2]):
                stats["reconstructed_derived_unit"] += 1
            if V.si(v[0], v[1], v[2]) != want[0] or V.dims(v[2]) != want[1]:
                return {"why": "SI value %s with dimensions %s, expected %s with %s" % (V.si(v[0], v[1], v[2]), V.dims(v[2]), want[0], want[1])}
            return None
        items.append((q, o))
        return True
    for t in trees:
        add(t)
    for a, b in extra:
        if add(a):
            add(b)
    # a temperature reading as an operand (alone it enters as kelvin, also under a prefix, on either side)
    from props import c09
    for q, o in c09.offset_products(rng, tier):
        if "^" in q or "°C*" in q or "*°C" in q or "°F/" in q or "/°C" in q or "°F*" in q:
            continue                       # the refusals are C09's
        items.append((q, o))
        stats["temperature_operands"] = stats.get("temperature_operands", 0) + 1
    corpus = vlib.load_corpus("C04")
    items = [(q, None) for q in corpus] + items
    replies, failures, mismatches, ncoq = pipeline.run_queries(items, "C04", rng, tier, model_ok, budget_quick=1200)
    return {
        "evaluations": len(items), "distinct_nontrivial": len({q for q, _ in items if any(c in q for c in "*/^")}),
        "rule": "random expression trees (depth <= 4) over quantities with compound units drawn from the whole typeable vocabulary (derived, "
                "prefixed, powered, products and quotients) and plain numbers, combined with * / ^k (k in -2..3) and parentheses; plus x^k "
                "against the k-fold product and x^0 against 1; non-trivial = distinct queries with an operator",
        "samples": [q for q, _ in items[len(corpus) + 1::max(1, len(items) // 7)]][:8],
        "mismatches": mismatches, "failures": failures,
        "extra": dict(stats, model_cases_evaluated_in_coq=ncoq, exhaustive=False),
    }


def replay(obj):
    q = obj["input"]
    r = vlib.run_impl(["Q " + vlib.hx(q)])[0]
    print("query %r -> %s; recorded: %s" % (q, r.get("results"), obj.get("why")))
    if obj.get("expected") == "error":
        return pipeline.is_error(r)
    return False
