"""C15 — the on-disk index always recovers to the shipped data."""
import json
import os
import shutil
import subprocess
import vlib

PROP_FILE = "props/C15.v"
LEVEL = "proof"
TRUSTED_BASE = [
    "state-machine model of Db::open (coq/model/DbProto.v): what one start reads, the persistent effects it performs -- their ORDER and the "
    "positions of the crash points are translated from src/db.rs on every run -- and what a kill at each crash point leaves behind",
    "correspondence: the real database code (harness binary db_run = Db::open + probe queries, built from /repo with the crash-point hooks) "
    "driven through every prior directory state x every crash point x one or two further starts, compared with the model's prediction "
    "(metadata current or not, index directory present or not after the kill; shipped answers and current metadata after the next "
    "complete start) and with an in-memory database",
    "starts that keep their index in memory (Db::in_memory) are events of the model too: whether such a start writes meta.json is the guard "
    "around config.write_meta() translated from src/db.rs (gen/DbSteps.v meta_written_when); histories kill -> in-memory start -> start are "
    "run on the real code for every prior state and compared with the model",
]
ASSUMPTIONS = [
    "PARTIAL: each persistent effect is atomic in the model (a torn meta.json is the 'garbage' state; tantivy's commit is atomic); "
    "filesystem reordering, partial directory removal and concurrent starts are outside the model",
    "which conditions trigger a rebuild (version gate, hash test, is_dir) is transcribed by hand and checked by the translator's pattern "
    "match on db.rs plus the correspondence runs",
]
PROBES = ["pi", "speed of light", "population finland", "mass of earth / 2", "1 km to m", "zzyzx quuxium", "zzyzx", "popul finl", "speed of li"]


class Sandbox:
    def __init__(self, root):
        self.root = root
        self.data = os.path.join(root, "facts")
        self.exe = os.path.join(os.path.dirname(vlib.build_harness()), "db_run")

    def env(self, crash=None, memory=False):
        e = dict(vlib.ENV, XDG_DATA_HOME=self.root, HOME=self.root)
        e.pop("ANYTHING_VERIF_CRASH_AT", None)
        if crash is not None:
            e["ANYTHING_VERIF_CRASH_AT"] = str(crash)
        if memory:
            e["DB_RUN_MODE"] = "memory"
        return e

    def start(self, crash=None, memory=False):
        r = subprocess.run([self.exe] + [vlib.hx(p) for p in PROBES], env=self.env(crash, memory), capture_output=True, text=True, timeout=120)
        answers = [json.loads(l) for l in r.stdout.split("\n") if l.startswith("{")]
        return r.returncode, answers

    def meta(self):
        p = os.path.join(self.data, "meta.json")
        if not os.path.exists(p):
            return None

        def pairs(kv):
            if len({k for k, _ in kv}) != len(kv):
                raise ValueError("duplicate key")          # serde rejects a repeated field; so does this reading
            return dict(kv)
        try:
            return json.load(open(p), object_pairs_hook=pairs)
        except Exception:
            return "garbage"


def run(rng, tier, model_ok):
    root = os.path.join(vlib.BUILD, "c15")
    shutil.rmtree(root, ignore_errors=True)
    os.makedirs(root)
    sb = Sandbox(os.path.join(root, "work"))
    os.makedirs(sb.root)
    # reference answers from an in-memory database, and a pristine on-disk template
    rc, ref = sb.start(memory=True)
    failures = []
    if rc != 0 or len(ref) != len(PROBES):
        failures.append({"input": "in-memory start", "why": "the in-memory database does not start: rc=%s" % rc})
    rc, first = sb.start()
    cur_meta = sb.meta()
    template = os.path.join(root, "template")
    shutil.copytree(sb.data, template)
    if first != ref or not isinstance(cur_meta, dict):
        failures.append({"input": "first on-disk start", "why": "a fresh on-disk database answers differently from the in-memory one"})

    def is_current(m):
        return isinstance(m, dict) and m == cur_meta

    def prepare(state):
        shutil.rmtree(sb.data, ignore_errors=True)
        if state == "absent":
            return (0, 0)
        shutil.copytree(template, sb.data)
        mp = os.path.join(sb.data, "meta.json")
        ip = os.path.join(sb.data, "index")
        if state == "current":
            return (2 + 3 * 1 + 1, 3)
        if state == "other_version":
            json.dump(dict(cur_meta, version="0.0.0-other"), open(mp, "w"))
            return (2 + 3 * 2 + 1, 3)
        if state == "other_hash":
            json.dump(dict(cur_meta, database_hash="0123456789abcdef"), open(mp, "w"))
            return (2 + 3 * 1 + 2, 3)
        if state == "meta_missing":
            os.remove(mp)
            return (0, 3)
        if state == "meta_truncated":
            open(mp, "w").close()
            return (1, 3)
        if state == "meta_garbage":
            open(mp, "w").write("{\"version\": \"0.1")
            return (1, 3)
        if state.startswith("meta_shape_"):
            # well-formed JSON that is not the expected object: unreadable metadata all the same
            shapes = {"meta_shape_nested": '{"version":{"major":0,"minor":1},"database_hash":"x"}', "meta_shape_number": '{"version":"%s","database_hash":12345}' % cur_meta["version"],
                      "meta_shape_null": "null", "meta_shape_string": '"%s"' % cur_meta["version"], "meta_shape_list": '[1,2,3]',
                      "meta_shape_duplicate": '{"version":"%s","version":"%s","database_hash":"%s"}' % (cur_meta["version"], cur_meta["version"], cur_meta["database_hash"])}
            open(mp, "w").write(shapes[state])
            return (1, 3)
        if state == "meta_no_keys":
            open(mp, "w").write("{}")
            return (2, 3)
        if state == "meta_only_version":
            json.dump({"version": cur_meta["version"]}, open(mp, "w"))
            return (2 + 3 * 1 + 0, 3)
        if state == "index_missing":
            shutil.rmtree(ip)
            return (2 + 3 * 1 + 1, 0)
        if state == "index_broken":
            os.remove(os.path.join(ip, "meta.json"))
            return (2 + 3 * 1 + 1, 1)
        if state == "index_broken_other_hash":
            os.remove(os.path.join(ip, "meta.json"))
            json.dump(dict(cur_meta, database_hash="0123"), open(mp, "w"))
            return (2 + 3 * 1 + 2, 1)
        if state.startswith("foreign_layout"):
            # an index written with another layout (as another release would), under metadata of another patch release / another
            # minor release of the same line
            r = subprocess.run([sb.exe], env=dict(sb.env(), DB_RUN_MODE="poison_layout"), capture_output=True, text=True, timeout=120)
            if r.returncode != 0:
                raise vlib.BuildError("cannot prepare an index with a foreign layout: %s %s" % (r.stdout[-200:], r.stderr[-200:]))
            parts = cur_meta["version"].split(".")
            if state == "foreign_layout_other_patch":
                parts[-1] = str(int("".join(ch for ch in parts[-1] if ch.isdigit()) or "0") + 1)
            else:
                parts[-2] = str(int(parts[-2]) + 1) if len(parts) >= 2 and parts[-2].isdigit() else "9"
            json.dump(dict(cur_meta, version=".".join(parts)), open(mp, "w"))
            return (2 + 3 * 2 + 1, 4)
        if state.startswith("foreign_data"):
            # an index that holds a fact which is not shipped (as one written for other data would), under metadata that does not
            # declare it current
            r = subprocess.run([sb.exe], env=dict(sb.env(), DB_RUN_MODE="poison"), capture_output=True, text=True, timeout=120)
            if r.returncode != 0:
                raise vlib.BuildError("cannot prepare an index with foreign data: %s %s" % (r.stdout[-200:], r.stderr[-200:]))
            if state == "foreign_data_other_hash":
                json.dump(dict(cur_meta, database_hash="0123456789abcdef"), open(mp, "w"))
                return (2 + 3 * 1 + 2, 4)
            if state == "foreign_data_no_hash":
                json.dump({"version": cur_meta["version"]}, open(mp, "w"))
                return (2 + 3 * 1 + 0, 4)
            if state == "foreign_data_other_version":
                json.dump(dict(cur_meta, version="0.0.0-other"), open(mp, "w"))
                return (2 + 3 * 2 + 1, 4)
            if state == "foreign_data_meta_missing":
                os.remove(mp)
                return (0, 4)
            if state == "foreign_data_meta_garbage":
                open(mp, "w").write("{\"version\": \"0.1")
                return (1, 4)
        if state == "everything_missing_but_dir":
            os.remove(mp)
            shutil.rmtree(ip)
            return (0, 0)
        raise ValueError(state)
    states = ["absent", "current", "other_version", "other_hash", "meta_missing", "meta_truncated", "meta_garbage", "meta_no_keys",
              "meta_only_version", "index_missing", "index_broken", "index_broken_other_hash", "everything_missing_but_dir",
              "foreign_data_other_hash", "foreign_data_no_hash", "foreign_data_other_version", "foreign_data_meta_missing", "foreign_data_meta_garbage", "foreign_layout_other_patch", "foreign_layout_other_minor",
              "meta_shape_nested", "meta_shape_number", "meta_shape_null", "meta_shape_string", "meta_shape_list", "meta_shape_duplicate"]
    cps = list(range(1, 11))
    histories = [[c] for c in cps]
    if tier == "thorough":
        histories += [[a, b] for a in cps for b in cps if (a + b) % 3 == 0]
    else:
        histories += [[5, 8], [8, 5], [2, 9], [4, 4], [9, 10]]
    cases, samples = [], []
    runs = 0
    for st in states:
        for hist in histories:
            code = prepare(st)
            killed = []
            for cp in hist:
                rc, _ = sb.start(crash=cp)
                runs += 1
                killed.append(rc)
            m = sb.meta()
            after = [1 if is_current(m) else 0, 1 if os.path.isdir(os.path.join(sb.data, "index")) else 0]
            rc, ans = sb.start()
            runs += 1
            ok = rc == 0 and ans == ref
            m2 = sb.meta()
            observed = after + [1 if ok else 0, 1 if is_current(m2) else 0]
            cases.append((11, list(code) + hist, observed))
            if not ok:
                failures.append({"input": {"state": st, "kills_at": hist}, "why": "after the kills the next start does not answer like a fresh in-memory database (rc=%s)" % rc,
                                 "got": ans[:2]})
            elif not is_current(m2):
                failures.append({"input": {"state": st, "kills_at": hist}, "why": "a completed start did not leave current metadata"})
            # "never records the index as current before the index is completely committed": if the metadata is current after the kills,
            # a plain reopen must already answer from the shipped data -- checked by the run above without any rebuild in between
            if len(samples) < 6 and len(hist) == 2:
                samples.append({"state": st, "kills_at": hist, "exit_codes_of_killed_starts": killed, "observed": observed})
            # a second complete start must be a plain reopen with the same answers
            if tier == "thorough" or hist == [8]:
                rc3, ans3 = sb.start()
                runs += 1
                if rc3 != 0 or ans3 != ref:
                    failures.append({"input": {"state": st, "kills_at": hist}, "why": "the second start after recovery answers differently"})
    # a start that keeps its index in memory (Db::in_memory, given the same data directory) between the kill and the next start: it
    # answers from the shipped data and leaves the directory to be recovered as if it had not run
    mem_runs = 0
    for st in states:
        for cp in ((3, 6, 8, 10) if tier == "quick" else cps):
            code = prepare(st)
            sb.start(crash=cp)
            rcm, ansm = sb.start(memory=True)
            m = sb.meta()
            after = [1 if is_current(m) else 0, 1 if os.path.isdir(os.path.join(sb.data, "index")) else 0]
            rc, ans = sb.start()
            cases.append((11, list(code) + [cp, -1], after + [1 if rc == 0 and ans == ref else 0, 1 if is_current(sb.meta()) else 0]))
            rc2, ans2 = (sb.start() if cp == 8 or tier == "thorough" else (0, ref))
            runs += 4
            mem_runs += 1
            hist = {"state": st, "kills_at": [cp], "then": "an in-memory start, then ordinary starts"}
            if rcm != 0 or ansm != ref:
                failures.append({"input": hist, "why": "the in-memory start after the kill does not answer from the shipped data (rc=%s)" % rcm, "got": ansm[:2]})
            elif rc != 0 or ans != ref or rc2 != 0 or ans2 != ref:
                failures.append({"input": hist, "why": "after a kill and an in-memory start, an ordinary start does not answer like a fresh in-memory database", "got": (ans if ans != ref else ans2)[:2]})
            elif not is_current(sb.meta()):
                failures.append({"input": hist, "why": "a completed start did not leave current metadata"})
    # faults between runs: a start killed at ANY crash point the source has (they are read from the source, so a point added by a
    # change is tried as well), then the directory damaged from outside (index removed, metadata removed, metadata cut short), then
    # a start killed while rebuilding, then a complete start -- anything a killed start leaves behind must not vouch for a later index
    import re as _re
    found = set()
    for fn in os.listdir("/repo/src"):
        if fn.endswith(".rs"):
            found |= {int(x) for x in _re.findall(r"crash_point\((\d+)\)", open(os.path.join("/repo/src", fn)).read())}
    allcps = sorted(found | set(cps))
    damages = ["remove_index", "remove_meta", "cut_meta"]
    dam_runs = 0
    for st in ("absent", "current"):
        for p_ in allcps:
            for dmg in damages:
                for q_ in ((5, 7) if tier == "quick" else (5, 6, 7, 8)):
                    prepare(st)
                    sb.start(crash=p_)
                    ip_, mp_ = os.path.join(sb.data, "index"), os.path.join(sb.data, "meta.json")
                    if dmg == "remove_index":
                        shutil.rmtree(ip_, ignore_errors=True)
                    elif dmg == "remove_meta":
                        if os.path.exists(mp_):
                            os.remove(mp_)
                    elif os.path.exists(mp_):
                        b_ = open(mp_, "rb").read()
                        open(mp_, "wb").write(b_[: len(b_) // 2])
                    sb.start(crash=q_)
                    rc, ans = sb.start()
                    runs += 3
                    dam_runs += 1
                    h_ = {"state": st, "history": ["kill at %d" % p_, dmg, "kill at %d" % q_, "start"]}
                    if rc != 0 or ans != ref:
                        failures.append({"input": h_, "why": "after the history the start does not answer like a fresh in-memory database (rc=%s)" % rc, "got": ans[:2]})
                    elif not is_current(sb.meta()):
                        failures.append({"input": h_, "why": "a completed start did not leave current metadata"})
    mismatches = []
    if model_ok:
        bad = vlib.coq_eval_cases(cases, "C15", shard_size=50)
        for j, got in sorted(bad.items()):
            mismatches.append({"input": cases[j][1], "model_[meta_current,index_dir,shipped,meta_current]": got, "observed": cases[j][2]})
    shutil.rmtree(root, ignore_errors=True)
    return {
        "evaluations": runs, "distinct_nontrivial": len(cases),
        "rule": "26 prior directory states (absent; current; other version; other hash; metadata missing / truncated / torn / without keys / "
                "version only; index directory missing / unopenable (with current and with other hash); empty directory; an index holding a fact that "
                "is not shipped under five kinds of metadata that do not declare it current; an index of another layout under the version of another patch / minor release; metadata that is well-formed JSON of the wrong shape) x every crash point "
                "1..10 (and pairs of crash points), each followed by a complete start compared with an in-memory database; histories kill at any crash point found in the source -> damage from outside -> kill while rebuilding -> start; non-trivial = "
                "distinct (state, kill history) cases",
        "samples": samples, "mismatches": mismatches, "failures": failures,
        "extra": {"states": len(states), "crash_points": len(cps), "histories": len(histories), "process_starts": runs, "histories_with_an_in_memory_start": mem_runs, "histories_with_damage_between_kills": dam_runs, "crash_points_in_source": allcps, "exhaustive": True,
                  "exhaustive_domain": "prior state x single crash point"},
    }


def replay(obj):
    print("recorded:", json.dumps(obj)[:400])
    return False
