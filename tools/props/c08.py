"""C08 — printed decimals are faithful and never silently truncated."""
from fractions import Fraction
import json
import vlib

PROP_FILE = "props/C08.v"
LEVEL = "proof"
TRUSTED_BASE = [
    "hand-written Gallina model of rational/display.rs (coq/model/Display.v): fmt computes (mantissa, up, down, mark), display_abs renders it",
    "correspondence: Rational::display text vs Display.display on every (value, limit, threshold) of this run, character by character",
    "independent read-back of the implementation's text in Python (sign, digits, point, mark, exponent) as the specification oracle",
]
ASSUMPTIONS = [
    "the theorem is about fmt (what is printed, structurally); that display_abs places the point accordingly is checked by the "
    "correspondence and by the Python read-back of the real text, not proved at character level",
]

MARK = "…"


def readback(text):
    """(sign, value as Fraction, position of last digit as power of ten, mark) of a printed decimal."""
    t = text
    neg = t.startswith("-")
    if neg:
        t = t[1:]
    exp = 0
    if "e" in t:
        t, e = t.split("e", 1)
        exp = int(e)
    mark = t.endswith(MARK)
    if mark:
        t = t[:-1]
    if "." in t:
        a, b = t.split(".", 1)
    else:
        a, b = t, ""
    if not (a + b).isdigit():
        return None
    v = Fraction(int(a + b)) * Fraction(10) ** (exp - len(b))
    return neg, v, exp - len(b), mark


def check(n, d, limit, el, text):
    q = Fraction(n, d)
    rb = readback(text)
    if rb is None:
        return "unreadable text %r" % text
    neg, v, pos, mark = rb
    unit = Fraction(10) ** pos
    a = abs(q)
    trunc = (a // unit) * unit
    if v != trunc:
        return "text %r reads back %s, expected |value| cut at 10^%d = %s" % (text, v, pos, trunc)
    if neg != (q < 0):
        return "wrong sign in %r" % text
    if mark != (trunc != a):
        return "mark %s but cut-off digits are %s in %r" % (mark, "non-zero" if trunc != a else "zero", text)
    return None


def gen(rng, tier):
    vals = []
    g = 12 if tier == "quick" else 40
    for n in range(-g, g + 1):
        for d in range(1, g + 1):
            vals.append((n, d))
    k = 400 if tier == "quick" else 4000
    for _ in range(k):
        mag = rng.randint(-40, 40)
        digits = rng.randint(1, 25)
        m = rng.randint(1, 10 ** digits)
        den = rng.choice([1, 1, 3, 7, 9, 11, 10 ** rng.randint(0, 30), 2 ** rng.randint(0, 20), rng.randint(1, 10 ** 6)])
        q = Fraction(m, den) * Fraction(10) ** mag
        if rng.random() < 0.3:
            q = -q
        vals.append((q.numerator, q.denominator))
    # boundary shapes: powers of ten, all nines, repeating
    for e in range(0, 22):
        for delta in (-1, 0, 1):
            vals.append((10 ** e + delta, 1))
            vals.append((10 ** e + delta, 10 ** (e + 3)))
            vals.append((1, 10 ** e + (delta if 10 ** e + delta > 0 else 1)))
    return vals


def run(rng, tier, model_ok):
    vals = gen(rng, tier)
    combos = []
    lims = list(range(1, 21))
    els = list(range(1, 16))
    per = 3 if tier == "quick" else 12
    for (n, d) in vals:
        for _ in range(per):
            combos.append((n, d, rng.choice(lims), rng.choice(els)))
    # the pairs the program itself uses
    for (n, d) in vals[:: max(1, len(vals) // 300)]:
        combos.append((n, d, 12, 12))
        combos.append((n, d, 6, 8))
    # boundary grid: terminating values k / 10^s (so that the digits cut off are known exactly: none, all zero, a single digit)
    # under every small digit limit and thresholds around the value's magnitude; both signs
    ks = [1, 7, 12, 105, 1001, 10001, 100001, 1000001, 20005, 300007, 99999, 100000, 1234567] if tier == "quick" else [1, 2, 5, 7, 9, 10, 11, 12, 19, 99, 100, 101, 105, 999, 1001, 99999, 100000, 100001, 1234567, 12345678]
    for k in ks:
        for sc in range(0, 15):
            for lim in (1, 2, 3, 4, 6, 8, 12, 20):
                for el in (1, 2, 3, 4, 8, 12):
                    if tier == "quick" and rng.random() < 0.5:
                        continue
                    combos.append((k * rng.choice([1, -1]), 10 ** sc, lim, el))
    corpus = [tuple(c) for c in vlib.load_corpus("C08")]
    combos = corpus + combos
    rep = vlib.run_impl(["D %d %d %d %d" % c for c in combos])
    failures, cases = [], []
    for c, r in zip(combos, rep):
        text = r.get("text")
        if text is None:
            failures.append({"input": list(c), "why": "formatter failed: %s" % str(r)[:200]})
            continue
        why = check(c[0], c[1], c[2], c[3], text)
        if why:
            failures.append({"input": list(c), "text": text, "why": why})
        cases.append((2, list(c), [ord(ch) for ch in text]))
    # values as they arrive from stored data: serde hands over numerator and denominator as written, not reduced and possibly with a
    # negative denominator; the text must be that of the value all the same
    def big(z):
        sign = 0 if z == 0 else (1 if z > 0 else -1)
        z = abs(z)
        ds = []
        while z:
            ds.append(z & 0xFFFFFFFF)
            z >>= 32
        return [sign, ds]
    raw = []
    for (n, d) in [(1, -3), (7, -2), (-7, -2), (2, 6), (-2, 6), (10, -4), (-1, -1000000000000), (123456789, -1000), (5, -1), (0, -5), (6, 3), (1, -7)] + \
                  [(rng.randint(-10 ** 6, 10 ** 6), rng.choice([-1, 1]) * rng.randint(1, 10 ** 4)) for _ in range(40 if tier == "quick" else 600)]:
        for lim, el in [(6, 8), (12, 12), (1, 1), (3, 2)]:
            raw.append((n, d, lim, el))
    jrep = vlib.run_impl(["DJ %s %d %d" % (vlib.hx(json.dumps([big(n), big(d)])), lim, el) for n, d, lim, el in raw])
    for (n, d, lim, el), r in zip(raw, jrep):
        text = r.get("text")
        if text is None:
            failures.append({"input": [n, d, lim, el], "why": "a stored value %d/%d cannot be displayed: %s" % (n, d, str(r)[:160])})
            continue
        f = Fraction(n, d)
        why = check(f.numerator, f.denominator, lim, el, text)
        if why:
            failures.append({"input": [n, d, lim, el], "text": text, "why": "stored as %d/%d: %s" % (n, d, why)})
    mismatches = []
    if model_ok:
        sub = [c for c in cases if abs(c[1][0]) < 10 ** 45 and c[1][1] < 10 ** 45]
        if tier == "quick" and len(sub) > 5000:
            sub = sub[:1500] + rng.sample(sub[1500:], 3500)
        bad = vlib.coq_eval_cases(sub, "C08", shard_size=600)
        for i, got in sorted(bad.items()):
            mismatches.append({"input": sub[i][1], "model": "".join(chr(x) for x in got), "impl": "".join(chr(x) for x in sub[i][2])})
    paths = {"big": 0, "sci_small": 0, "marked": 0, "plain": 0}
    for c, r in zip(combos, rep):
        t = r.get("text", "")
        paths["marked"] += MARK in t
        if "e-" in t:
            paths["sci_small"] += 1
        elif "e" in t:
            paths["big"] += 1
        else:
            paths["plain"] += 1
    distinct = {(c, r.get("text")) for c, r in zip(combos, rep) if MARK in r.get("text", "") or "e" in r.get("text", "")}
    return {
        "evaluations": len(combos), "distinct_nontrivial": len(distinct),
        "rule": "numerator/denominator grid, random magnitudes 1e-40..1e40 (terminating and repeating), powers of ten +-1, each with "
                "random digit limits 1..20 and exponent thresholds 1..15 plus the program's own (12,12) and (6,8); non-trivial = distinct "
                "(value, limits, text) whose text carries a mark or an exponent",
        "samples": [{"value": "%d/%d" % (c[0], c[1]), "limit": c[2], "threshold": c[3], "text": r.get("text")} for c, r in list(zip(combos, rep))[5::max(1, len(combos) // 6)]][:8],
        "mismatches": mismatches, "failures": failures,
        "extra": {"text_shapes": paths, "exhaustive": False},
    }


def replay(obj):
    n, d, limit, el = obj["input"]
    r = vlib.run_impl(["D %d %d %d %d" % (n, d, limit, el)])[0]
    why = check(n, d, limit, el, r.get("text", ""))
    print("%d/%d limit=%d threshold=%d -> %r: %s" % (n, d, limit, el, r.get("text"), why or "faithful"))
    return why is None
