"""C18 — describing a query does not change its answer and reports exactly the facts used."""
import subprocess
import json
import os
import vlib
import qcorr
import pipeline
import unitlib
from props.c13 import fact_phrases

PROP_FILE = "props/C18.v"
LEVEL = "proof"
TRUSTED_BASE = [
    "hand-written Gallina model of eval.rs with the description list threaded through (coq/model/Eval.v); the database is a parameter: "
    "an arbitrary function from phrases to lookup answers",
    "correspondence: anything::query with Options::describe vs Run.query with descriptions, including the order of the descriptions",
    "oracle on the implementation: same results with and without describe; descriptions = the fact phrases of the query, each carrying the "
    "constant the database returns for that phrase; same answers in any order of queries against one Db instance and against fresh ones",
]
ASSUMPTIONS = ["that Db::lookup is a function of the phrase (no hidden state) is exercised by re-ordering queries, not proved"]


def gen_query(rng, phrases):
    n = rng.randint(1, 4)
    parts = []
    used = []
    for i in range(n):
        if rng.random() < 0.65:
            p = rng.choice(phrases)
            parts.append(p)
            used.append(p)
        else:
            parts.append(str(rng.randint(1, 99)))
    ops = ["*", "/", "*", "/"]
    q = parts[0]
    for p in parts[1:]:
        op = rng.choice(ops)
        if rng.random() < 0.25:
            q = "(%s) %s %s" % (q, op, p)
        elif rng.random() < 0.25 and not p[0].isdigit():
            q = "%s %s round(%s)" % (q, op, p)
        else:
            q = "%s %s %s" % (q, op, p)
    return q, used


def run(rng, tier, model_ok):
    phrases = fact_phrases(rng, 80 if tier == "quick" else 600)
    phrases += ["nosuchfact", "no such fact anywhere"]
    n = 400 if tier == "quick" else 6000
    queries = []
    for _ in range(n):
        queries.append(gen_query(rng, phrases))
    # a fact phrase inside the operand of a cast, to a unit of every dimension the operand can be cast to (lengths, masses, times,
    # accelerations, densities ...), and the cast itself as an operand next to another fact
    V = unitlib.vocab()
    real = [p for p in phrases if p not in ("nosuchfact", "no such fact anywhere")]
    some = real[: (14 if tier == "quick" else 120)]
    for must in ("gravity", "mass of earth", "speed of light"):
        if must in real and must not in some:
            some.append(must)
    operands = []
    for p in some:
        operands += [(p, [p]), ("10 N / %s" % p, [p]), ("%s * 2 s" % p, [p]), ("%s / 3 s" % p, [p]), ("%s / 3 s^2" % p, [p]),
                     ("%s / 4 kg" % p, [p]), ("%s * 5 m" % p, [p]), ("2 m / 1 s^2 * %s / %s" % (p, p), [p, p])]
    orep = vlib.run_impl(["Q " + vlib.hx(o) for o, _ in operands])
    targets = unitlib.cast_targets(V)
    ncast = 0
    for (o, used), r in zip(operands, orep):
        res = r.get("results") or []
        if len(res) != 1 or "ok" not in res[0]:
            continue
        d = V.dims(res[0]["ok"][2])
        for t, nt in targets:
            if V.dims(nt) == d and not V.has_offset(nt):
                other = rng.choice(real)
                queries.append(("%s to %s" % (o, t), used))
                queries.append(("(%s to %s) * %s" % (o, t, other), used + [other]))
                queries.append(("%s / (%s to %s)" % (other, o, t), [other] + used))
                ncast += 3
    qs = [q for q, _ in queries]
    on, _, cases_on = qcorr.build_cases(qs, describe=True)
    off, _, cases_off = qcorr.build_cases(qs, describe=False)
    # lookups per phrase straight from the index
    allp = sorted({p for _, used in queries for p in used})
    krep = dict(zip(allp, vlib.run_impl(["K %s 1" % vlib.hx(p) for p in allp])))
    failures = []
    stats = {"casts_of_fact_operands": ncast, "with_two_or_more_facts": 0, "with_error": 0, "descriptions_total": 0}
    for (q, used), a, b in zip(queries, on, off):
        if "panic" in a or "panic" in b:
            failures.append({"input": q, "why": "panic"})
            continue
        if a.get("results") != b.get("results"):
            failures.append({"input": q, "why": "describing changes the answer", "with": a.get("results"), "without": b.get("results")})
        if b.get("desc"):
            failures.append({"input": q, "why": "descriptions reported although describe is off"})
        desc = a.get("desc", [])
        stats["descriptions_total"] += len(desc)
        if len(used) >= 2:
            stats["with_two_or_more_facts"] += 1
        err = pipeline.is_error(a)
        stats["with_error"] += err
        if not err and sorted(d["phrase"] for d in desc) != sorted(used):
            failures.append({"input": q, "why": "descriptions %s are not exactly the looked-up phrases %s" % ([d["phrase"] for d in desc], used)})
        for d in desc:
            k = krep.get(d["phrase"])
            if not isinstance(k, list) or not k or k[0].get("value") != d["value"] or k[0].get("unit") != d["unit"] or k[0].get("description") != d["description"]:
                failures.append({"input": q, "why": "the description of %r is not the constant the database returns for it" % d["phrase"]})
    # one database instance, varying order; and fresh instances
    sub = qs[:60]
    fwd = vlib.run_impl(["Q " + vlib.hx(q) for q in sub], shards=1)
    rev = vlib.run_impl(["Q " + vlib.hx(q) for q in reversed(sub)], shards=1)[::-1]
    fresh = []
    exe = os.path.join(os.path.dirname(vlib.build_harness()), "impl_run")
    for q in sub[:25]:
        r = subprocess.run([exe], input="Q %s\n" % vlib.hx(q), capture_output=True, text=True, env=vlib.ENV)
        fresh.append(json.loads(r.stdout.splitlines()[0]))
    for i, q in enumerate(sub):
        if fwd[i].get("results") != rev[i].get("results") or (i < len(fresh) and fresh[i].get("results") != fwd[i].get("results")):
            failures.append({"input": q, "why": "the answer depends on which queries ran before it on the same database"})
    # a phrase is reported as it was written: two blanks, a tab, a no-break space between its words
    irr = []
    for p in [x for x in phrases if " " in x][: (12 if tier == "quick" else 200)]:
        for sep in ("  ", "\t", "\u00a0", " \t "):
            ph = p.replace(" ", sep)
            irr.append(("%s / 2" % ph, ph))
            irr.append(("2 * (%s)" % ph, ph))
    irep = vlib.run_impl(["Q %s d" % vlib.hx(q) for q, _ in irr])
    for (q, ph), r in zip(irr, irep):
        got = [d["phrase"] for d in r.get("desc", [])]
        res = r.get("results") or []
        if len(res) == 1 and "ok" in res[0] and got != [ph]:
            failures.append({"input": q, "why": "the phrase looked up is %r, the description reports %r" % (ph, got)})
    stats["irregular_blank_phrases"] = len(irr)
    # several expressions in one query: what the successful ones used is reported whatever happens to the others
    multi = []
    facts2 = [x for x in phrases if x not in ("nosuchfact", "no such fact anywhere")]
    for _ in range(40 if tier == "quick" else 600):
        a, b = rng.choice(facts2), rng.choice(facts2)
        bad = rng.choice(["(%s / 0)" % b, "(%s + 1 s + 1 m)" % b, "(nosuchfact * %s)" % b, "(%s * nosuchfact)" % b, "(round(%s, 1, 2, 3))" % b])
        multi.append(("(%s) %s" % (a, bad), [a]))
        multi.append(("%s (%s)" % (bad, a), [a]))
        multi.append(("(%s) (%s)" % (a, b), [a, b]))
    mrep = vlib.run_impl(["Q %s d" % vlib.hx(q) for q, _ in multi])
    for (q, must), r in zip(multi, mrep):
        res = r.get("results") or []
        got = [d["phrase"] for d in r.get("desc", [])]
        if len(res) == 2 and any(m not in got for m in must) and all("ok" in x for x, m in zip(res if q.startswith("(" + must[0]) else res[::-1], must)):
            failures.append({"input": q, "why": "the facts used by the successful expression(s) %s are not all reported: %s" % (must, got)})
    stats["multi_expression_queries"] = len(multi)
    # several results of one query that use the same fact, and several queries appending to the descriptions of the same run: every
    # lookup is reported, in evaluation order, however often the phrase has been reported before
    rep_items = []          # (query, the phrases each result looks up, result by result)
    for _ in range(25 if tier == "quick" else 300):
        a, b = rng.choice(facts2), rng.choice(facts2)
        rep_items += [("(%s) (%s)" % (a, a), [[a], [a]]), ("(%s) (%s) (%s)" % (a, b, a), [[a], [b], [a]]), ("(%s) (2 * %s)" % (a, a), [[a], [a]]),
                      ("(%s * 2) (%s / %s)" % (a, b, a), [[a], [b, a]]), ("(%s) (%s) (%s) (%s)" % (b, a, a, b), [[b], [a], [a], [b]]),
                      ("(%s / %s) (%s)" % (a, a, a), [[a, a], [a]])]
    rrep = vlib.run_impl(["Q %s d" % vlib.hx(q) for q, _ in rep_items])
    for (q, want), r in zip(rep_items, rrep):
        res = r.get("results") or []
        got = [d["phrase"] for d in r.get("desc", [])]
        # results are evaluated in order; inside one result the order of the operands' evaluation is the evaluator's own (C18's
        # theorems fix it in the model, the correspondence compares it): here every lookup must be there, result by result
        ok, pos = True, 0
        for part in want:
            ok = ok and sorted(got[pos:pos + len(part)]) == sorted(part)
            pos += len(part)
        if res and all("ok" in x for x in res) and not (ok and pos == len(got)):
            failures.append({"input": q, "why": "the phrases looked up, result by result, are %s; the descriptions report %s" % (want, got)})
    stats["repeated_fact_queries"] = len(rep_items)
    _, _, rcases = qcorr.build_cases([q for q, _ in rep_items], describe=True)
    cases_on = cases_on + rcases
    _, _, mcases = qcorr.build_cases([q for q, _ in multi], describe=True)
    cases_on = cases_on + mcases
    # spellings of one phrase that differ only in case, among them the words the index's query syntax treats as operators when
    # capitalised: on one database in both orders, and each on a database of its own
    var = []
    for p in [x for x in phrases if " " in x][: (6 if tier == "quick" else 40)]:
        w = p.split(" ")
        for j in (" or ", " OR ", " and ", " AND ", " not ", " NOT "):
            var.append(w[0] + j + " ".join(w[1:]))
        var += [p, p.upper(), p.title(), w[0].upper() + " " + " ".join(w[1:])]
    one = vlib.run_impl(["Q %s d" % vlib.hx(q) for q in var], shards=1)
    two = vlib.run_impl(["Q %s d" % vlib.hx(q) for q in reversed(var)], shards=1)[::-1]
    from concurrent.futures import ThreadPoolExecutor

    def alone(q):
        r = subprocess.run([exe], input="Q %s d\n" % vlib.hx(q), capture_output=True, text=True, env=vlib.ENV)
        return json.loads(r.stdout.split("\n")[0])
    with ThreadPoolExecutor(max_workers=8) as ex:
        iso = list(ex.map(alone, var))
    for q, a, b, c in zip(var, one, two, iso):
        key = lambda r: (r.get("results"), [(d["phrase"], d["description"]) for d in r.get("desc", [])])
        if key(a) != key(c) or key(b) != key(c):
            failures.append({"input": q, "why": "asked after other spellings of the phrase on the same database the answer is not the one it has on a "
                             "database of its own", "alone": key(c)[0], "in_sequence": key(a)[0] if key(a) != key(c) else key(b)[0]})
    stats["case_variants"] = len(var)
    mismatches = []
    ncoq = 0
    if model_ok:
        allc = cases_on + cases_off[: len(cases_off) // 3]
        sub_cases = [c for c in allc if all(abs(x) < 10 ** 120 for x in c[2])]
        budget = 1500 if tier == "quick" else 20000
        if len(sub_cases) > budget:
            sub_cases = rng.sample(sub_cases, budget)
        ncoq = len(sub_cases)
        bad = vlib.coq_eval_cases(sub_cases, "C18", shard_size=200)
        for j, got in sorted(bad.items()):
            mismatches.append({"input": vlib.safe_text(sub_cases[j][1][-40:]), "model": got[:40], "impl": sub_cases[j][2][:40]})
    return {
        "evaluations": 2 * len(qs) + 2 * len(sub) + len(fresh), "distinct_nontrivial": len({q for q, used in queries if used}),
        "rule": "expressions of one to four operands mixing literals and phrases of shipped facts (plus two unknown phrases) with * /, parentheses "
                "and round(), each evaluated with and without descriptions; 60 of them also in forward and reverse order against one Db and 25 "
                "against fresh processes; fact operands cast to a unit of every dimension they can be cast to; irregular blanks, case variants, several expressions per query; non-trivial = distinct queries that look up at least one fact",
        "samples": qs[:6], "mismatches": mismatches, "failures": failures,
        "extra": dict(stats, model_cases_evaluated_in_coq=ncoq, exhaustive=False),
    }


def replay(obj):
    q = obj["input"]
    a, b = vlib.run_impl(["Q %s d" % vlib.hx(q), "Q " + vlib.hx(q)])
    print("query %r: with describe %s / %s; without %s" % (q, a.get("results"), [d["phrase"] for d in a.get("desc", [])], b.get("results")))
    return a.get("results") == b.get("results") and not b.get("desc")
