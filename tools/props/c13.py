"""C13 — quantity arithmetic obeys the field laws, including looked-up facts."""
from fractions import Fraction
import re
import vlib
import pipeline
import qcorr
import unitlib
from props.c02 import gens_dec

PROP_FILE = "props/C13.v"
LEVEL = "proof"
TRUSTED_BASE = [
    "hand-written Gallina model of eval's add/sub/mul/div over Compound::factor / mul and the translated unit tables",
    "correspondence: anything::query vs Run.query on every generated law instance; facts enter the model as the constants the real database "
    "returned for their phrases",
    "each law compares two answers of the implementation after SI normalisation in Python (value * scale, dimension vector)",
]
ASSUMPTIONS = ["theorems are about the model; scope: proportional units; sums need both operands with units or both plain"]

WORD = re.compile(r"^[a-zA-Z][a-zA-Z0-9']*$")


def fact_phrases(rng, k):
    """Phrases of shipped constants that can be typed in the query language."""
    out = []
    shipped = qcorr.tables()["shipped"]
    idx = list(range(len(shipped)))
    rng.shuffle(idx)
    for i in idx:
        toks = shipped[i]["tokens"]
        if not toks:
            continue
        t = toks[0]
        words = t.split(" ")
        if all(WORD.match(w) and w != "to" for w in words) and not words[0] in ("round", "floor", "ceil", "sin", "cos"):
            out.append(t)
        if len(out) >= k:
            break
    return out


def c03_read(V, texts):
    from props import c03
    return c03.read_units(V, texts)


def run(rng, tier, model_ok):
    V = unitlib.vocab()
    nfacts = 40 if tier == "quick" else 400
    phrases = fact_phrases(rng, nfacts)
    frep = vlib.run_impl(["Q " + vlib.hx(p) for p in phrases])
    facts = []
    for p, r in zip(phrases, frep):
        v = pipeline.single_value(r)
        if v is not None and not V.has_offset(v[2]):
            facts.append((p, v))
    # literal quantities
    nlit = 120 if tier == "quick" else 2000
    unit_texts = [V.unit_expr(rng, nfactors=rng.choice([1, 1, 2, 3])) for _ in range(nlit)]
    parsed = dict(zip(unit_texts, unitlib.impl_units(unit_texts)))
    quantities = []          # (text, names)
    zero_valued = set()
    for u in unit_texts:
        na = parsed[u]
        if na and not V.has_offset(na):
            x = Fraction(rng.randint(1, 999), rng.choice([1, 2, 10]))
            quantities.append(("%s %s" % (gens_dec(x), u), na))
            if rng.random() < 0.15:
                z = "%s %s" % (rng.choice(["0", "0.0", "0e3"]), u) if rng.random() < 0.7 else "(%s %s - %s %s)" % (gens_dec(x), u, gens_dec(x), u)
                quantities.append((z, na))
                zero_valued.add(z)
    for p, v in facts:
        quantities.append((p, v[2]))
        if v[0] == 0:
            zero_valued.add(p)
    # same-dimension partners: another spelling of the dimensions
    part_texts = {}
    for text, na in quantities:
        e = unitlib.expand_text(rng, V, na)
        if e:
            part_texts[text] = e
    pparsed = dict(zip(sorted(set(part_texts.values())), unitlib.impl_units(sorted(set(part_texts.values())))))

    def partner(text):
        e = part_texts.get(text)
        if not e or not pparsed.get(e):
            return None
        return "%s %s" % (gens_dec(Fraction(rng.randint(1, 999), rng.choice([1, 4, 10]))), e)
    items = []
    relations = []
    stats = {"with_fact": 0, "add_comm": 0, "mul_comm": 0, "add_assoc": 0, "mul_assoc": 0, "distrib": 0, "sub_self": 0, "div_self": 0}

    def add(q):
        items.append((q, None))
        return len(items) - 1

    def P(t):
        return "(%s)" % t
    rng.shuffle(quantities)
    for text, na in quantities:
        isfact = not text[0].isdigit()
        a = text
        b = partner(text)
        c = partner(text)
        other = rng.choice(quantities)[0]
        other2 = rng.choice(quantities)[0]
        if isfact:
            stats["with_fact"] += 1
        if b:
            relations.append(("same", add("%s + %s" % (a, b)), add("%s + %s" % (b, a))))
            stats["add_comm"] += 1
        relations.append(("same", add("%s * %s" % (a, other)), add("%s * %s" % (other, a))))
        stats["mul_comm"] += 1
        if b and c:
            relations.append(("same", add("(%s + %s) + %s" % (a, b, c)), add("%s + (%s + %s)" % (a, b, c))))
            stats["add_assoc"] += 1
            relations.append(("same", add("%s * (%s + %s)" % (other, a, b)), add("%s * %s + %s * %s" % (other, a, other, b))))
            stats["distrib"] += 1
        relations.append(("same", add("(%s * %s) * %s" % (a, other, other2)), add("%s * (%s * %s)" % (a, other, other2))))
        stats["mul_assoc"] += 1
        relations.append(("zero", add("%s - %s" % (a, a)), na))
        stats["sub_self"] += 1
        relations.append(("one", add("%s / %s" % (a, P(a) if " " in a and not isfact else a)), a in zero_valued))
        stats["div_self"] += 1
    # operands that use the SAME unit names with different powers and still have equal dimensions (two names of one dimension)
    groups = [["m", "ft", "mi", "yd", "in", "km"], ["s", "hr", "min", "dy"], ["kg", "lb", "oz", "g"], ["l", "gal", "tsp"], ["J", "btu", "eV"]]
    gw = sorted({w for g in groups for w in g})
    gread = dict(zip(gw, unitlib.impl_units(gw)))
    absolute = []          # (index, expected SI, expected dims)
    for _ in range(60 if tier == "quick" else 900):
        g = rng.choice(groups)
        u1, u2 = rng.sample(g, 2)
        if not gread.get(u1) or not gread.get(u2) or V.dims(gread[u1]) != V.dims(gread[u2]) or gread[u1][0][0] == gread[u2][0][0]:
            continue
        tot = rng.choice([0, 1, 2, -1])
        a = rng.choice([-2, -1, 1, 2, 3])
        c = rng.choice([x for x in (-2, -1, 1, 2, 3) if x != a])
        b, d = tot - a, tot - c
        if b == 0 or d == 0:
            continue

        def spell(p, q):
            return "%s^%d*%s^%d" % (u1, p, u2, q)

        def si_of(x, p, q):
            return x * V.scale(gread[u1]) ** p * V.scale(gread[u2]) ** q
        x, y = Fraction(rng.randint(1, 99), rng.choice([1, 2, 10])), Fraction(rng.randint(1, 99), rng.choice([1, 4]))
        A, B = "%s %s" % (gens_dec(x), spell(a, b)), "%s %s" % (gens_dec(y), spell(c, d))
        dims = {k: v * tot for k, v in V.dims(gread[u1]).items() if v * tot != 0}
        i1, i2 = add("%s + %s" % (A, B)), add("%s + %s" % (B, A))
        relations.append(("same", i1, i2))
        absolute.append((i1, si_of(x, a, b) + si_of(y, c, d), dims))
        i3 = add("%s - %s" % (A, B))
        absolute.append((i3, si_of(x, a, b) - si_of(y, c, d), dims))
        i4 = add("%s to %s" % (A, spell(c, d)))
        absolute.append((i4, si_of(x, a, b), dims))
        stats["same_names_other_powers"] = stats.get("same_names_other_powers", 0) + 1
    # products whose units cancel completely although the factors are spelled in different units (the scales must still multiply)
    inv = [("Bq", "hr"), ("Hz", "min"), ("kHz", "dy"), ("km/hr", "s/m"), ("N", "s^2/kg*km"), ("mi/hr", "hr/km"), ("W", "s/kJ"), ("l", "1/m^3"), ("Pa", "m^2/kN"),
           ("kg/l", "gal/lb"), ("J/s", "1/mW"), ("ft", "1/in")]
    iw = sorted({w for p in inv for w in p})
    iread = c03_read(V, iw)
    for a_u, b_u in inv:
        na, nb = iread.get(a_u), iread.get(b_u)
        if not na or not nb or V.dims(na) != {k: -v for k, v in V.dims(nb).items()}:
            continue
        for _ in range(3 if tier == "quick" else 30):
            x, y, z = (Fraction(rng.randint(1, 99), rng.choice([1, 2, 10])) for _ in range(3))
            A, B, C = "%s %s" % (gens_dec(x), a_u), "%s %s" % (gens_dec(y), b_u), "%s m" % gens_dec(z)
            sa, sb = x * V.scale(na), y * V.scale(nb)
            absolute.append((add("%s * %s" % (A, B)), sa * sb, {}))
            absolute.append((add("%s * %s" % (B, A)), sa * sb, {}))
            absolute.append((add("(%s * %s) * %s" % (A, B, C)), sa * sb * z, {"Meter": 1}))
            absolute.append((add("%s * (%s * %s)" % (A, B, C)), sa * sb * z, {"Meter": 1}))
            absolute.append((add("%s * (%s + %s)" % (A, B, B)), sa * 2 * sb, {}))
        stats["cancelling_products"] = stats.get("cancelling_products", 0) + 1
    corpus = vlib.load_corpus("C13")
    off = len(corpus)
    items2 = [(q, None) for q in corpus] + items
    replies, failures, mismatches, ncoq = pipeline.run_queries(items2, "C13", rng, tier, model_ok, budget_quick=1500)

    def norm(i):
        v = pipeline.single_value(replies[off + i])
        if v is None:
            return None
        return V.si(v[0], v[1], v[2]), V.dims(v[2])
    for i, want, dims in absolute:
        got = norm(i)
        if got is None or got[0] != want or got[1] != dims:
            failures.append({"input": items[i][0], "why": "the result is %s, the operands give SI %s with dimensions %s" % (got, want, dims)})
    for rel in relations:
        if rel[0] == "same":
            x, y = norm(rel[1]), norm(rel[2])
            qs = [items[rel[1]][0], items[rel[2]][0]]
            if (x is None) != (y is None):
                failures.append({"input": qs[0], "related": qs, "why": "one side of the law is a number, the other is not"})
            elif x is not None and x != y:
                failures.append({"input": qs[0], "related": qs, "why": "the two sides are different quantities: %s vs %s" % (x, y)})
        elif rel[0] == "zero":
            x = norm(rel[1])
            if x is None or x[0] != 0 or x[1] != V.dims(rel[2]):
                failures.append({"input": items[rel[1]][0], "why": "a - a is not zero of the same dimensions: %s" % (x,)})
        elif rel[2]:
            if not pipeline.is_error(replies[off + rel[1]]):
                failures.append({"input": items[rel[1]][0], "why": "0 / 0 must be an error"})
        else:
            x = norm(rel[1])
            if x is None or x[0] != 1 or x[1] != {}:
                failures.append({"input": items[rel[1]][0], "why": "a / a is not the dimensionless one: %s" % (x,)})
    return {
        "evaluations": len(items2), "distinct_nontrivial": len({q for q, _ in items}),
        "rule": "quantities: literals with random unit expressions over the whole typeable vocabulary and facts of the shipped database that "
                "can be typed (their own first phrase); partners of equal dimension are other spellings (expansion into base units); each "
                "quantity goes through a+b=b+a, a*b=b*a, both associativities, distributivity, a-a and a/a; non-trivial = distinct queries",
        "samples": [q for q, _ in items[3::max(1, len(items) // 7)]][:8],
        "mismatches": mismatches, "failures": failures,
        "extra": dict(stats, facts_used=len(facts), model_cases_evaluated_in_coq=ncoq, exhaustive=False),
    }


def replay(obj):
    V = unitlib.vocab()
    qs = obj.get("related") or [obj["input"]]
    rs = vlib.run_impl(["Q " + vlib.hx(q) for q in qs])
    vals = []
    for q, r in zip(qs, rs):
        v = pipeline.single_value(r)
        vals.append(None if v is None else (V.si(v[0], v[1], v[2]), V.dims(v[2])))
        print("query %r -> %s" % (q, vals[-1]))
    if len(vals) == 2:
        return vals[0] == vals[1]
    return False
