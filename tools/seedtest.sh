#!/bin/sh
# usage: seedtest.sh <patch.diff> <property> [tier]   -- apply a seeded change to /repo, run the check, undo the change
set -u
P="$1"; PROP="$2"; TIER="${3:-quick}"
cd /repo || exit 9
git diff --quiet || { echo "repo dirty"; exit 9; }
git apply "$P" || { echo "patch does not apply"; exit 9; }
cd /verif
cp evidence/$PROP.json /tmp/seedtest.evidence 2>/dev/null
VERIF_REPLAY_DIR=/tmp/seedtest.replays ./check "$PROP" --tier "$TIER" > /tmp/seedtest.out 2> /tmp/seedtest.err
RC=$?
git -C /repo checkout -- .
python3 /verif/tools/translate.py > /dev/null 2>&1
cp /tmp/seedtest.evidence evidence/$PROP.json 2>/dev/null
echo "exit=$RC"
grep -E "VIOLATION|KNOWN" /tmp/seedtest.out | head -5
tail -2 /tmp/seedtest.err
