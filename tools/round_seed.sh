#!/bin/sh
# usage: round_seed.sh <round tag, e.g. R7> <property ids...>   -- for each: collect the sub-agent's SEED directory from its scratch
# worktree /tmp/wt/<tag lower>-<prop>, confirm it (confirm_seed.sh), run the property's quick check against it (seedtest.sh).
TAG=$1; shift
LOW=$(echo $TAG | tr 'A-Z' 'a-z')
mkdir -p /tmp/wt/seeds
for P in "$@"; do
  W=/tmp/wt/$LOW-$P; S=/tmp/wt/seeds/$TAG-$P
  rm -rf $S; mkdir -p $S; cp -r $W/SEED/. $S/
  [ -d $S/demo ] || { echo "$TAG-$P: no demo"; continue; }
  /verif/tools/confirm_seed.sh $S 2>&1 | tail -1
  R=$(timeout 2400 /verif/tools/seedtest.sh $S/patch.diff $P 2>&1 | tr '\n' ' ')
  cp /tmp/seedtest.out $S/check_first.out 2>/dev/null; cp /tmp/seedtest.err $S/check_first.err 2>/dev/null
  echo "$TAG-$P first-run: $R"
done
