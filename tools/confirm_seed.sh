#!/bin/sh
# usage: confirm_seed.sh <seed dir with patch.diff and demo/demo_test.rs or demo/demo.sh> ...
# In a scratch worktree of /repo: the demonstration passes without the change, fails with it, and the 58 existing tests pass with it.
WT=/tmp/wt/confirm
export CARGO_NET_OFFLINE=true CARGO_TARGET_DIR=/tmp/wt/confirm-target
if [ ! -d $WT ]; then git -C /repo worktree add -q $WT HEAD || exit 9; fi
for S in "$@"; do
  cd $WT && git checkout -q -- . && git clean -qfd tests
  git -C $WT checkout -q --detach $(git -C /repo rev-parse HEAD)
  if [ -f $S/demo/demo.sh ]; then
    sh $S/demo/demo.sh $WT > $S/confirm_without.log 2>&1; A=$?
    git apply $S/patch.diff || { echo "$S: patch does not apply"; continue; }
    sh $S/demo/demo.sh $WT > $S/confirm_with.log 2>&1; B=$?
  else
    cp $S/demo/demo_test.rs $WT/tests/demo_test.rs
    cargo test --offline --test demo_test > $S/confirm_without.log 2>&1; A=$?
    git apply $S/patch.diff || { echo "$S: patch does not apply"; continue; }
    cargo test --offline --test demo_test > $S/confirm_with.log 2>&1; B=$?
    rm $WT/tests/demo_test.rs
  fi
  cargo nextest run --workspace --no-fail-fast --offline --test-threads 8 > $S/confirm_suite.log 2>&1; C=$?
  PASSED=$(grep -o "[0-9]* passed" $S/confirm_suite.log | tail -1)
  echo "$S: demo_without_change_exit=$A demo_with_change_exit=$B suite_exit=$C ($PASSED)"
  git checkout -q -- .
done
