#!/bin/sh
# Runs every kept seeded change against the check of the property it breaks; prints one line per seed.
cd /verif
for d in seeded/*/; do
  n=$(basename $d)
  p=$(python3 -c "import json;print(json.load(open('$d/meta.json'))['breaks_property'])")
  r=$(timeout 1800 tools/seedtest.sh /verif/${d}patch.diff $p 2>&1 | grep -E "^exit=|quick:" | tr '\n' ' ')
  echo "$n $p $r"
done
