"""Shared infrastructure of the /verif checks: building the harness from /repo's working tree, running the
implementation, evaluating the Coq model on generated case files, compiling proofs, evidence and reporting."""
import hashlib
import json
import os
import random
import re
import shutil
import subprocess
import sys
import threading
import time
from concurrent.futures import ThreadPoolExecutor

sys.set_int_max_str_digits(0)
sys.setrecursionlimit(40000)          # replies describing deeply nested syntax trees are decoded and walked recursively
threading.stack_size(256 << 20)
VERIF = os.path.dirname(os.path.dirname(os.path.abspath(__file__)))
REPO = "/repo"
COQ = os.path.join(VERIF, "coq")
BUILD = os.path.join(VERIF, ".build")
TARGET = os.path.join(BUILD, "target")
CASES = os.path.join(BUILD, "cases")
JOBS = int(os.environ.get("VERIF_JOBS", "16"))

KINDS = ["WHITESPACE", "STAR", "STARSTAR", "SLASH", "PLUS", "DASH", "CARET", "COMMA", "OPEN_PAREN", "CLOSE_PAREN",
         "OPEN_BRACE", "CLOSE_BRACE", "TO", "WORD", "SENTENCE", "NUMBER", "WITH_UNIT", "UNIT", "FN_NAME", "FN_ARGUMENTS",
         "FN_CALL", "PERCENTAGE", "OP_CAST", "OP_ADD", "OP_SUB", "OP_IMPLICIT_MUL", "OP_MUL", "OP_DIV", "OP_POWER",
         "OPERATOR", "OPERATION", "ERROR", "EOF"]
KIND_CODE = {k: i for i, k in enumerate(KINDS)}

ENV = dict(os.environ, CARGO_NET_OFFLINE="true", CARGO_TARGET_DIR=TARGET)


def log(*a):
    print(*a, file=sys.stderr, flush=True)


def hx(s):
    return s.encode("utf-8").hex() or "-"


# ----------------------------------------------------------------------------------------------- harness
_built = {}


def build_harness(release=False):
    """Build impl_run against /repo's current working tree (feature `verif`). Returns the binary path."""
    key = "release" if release else "debug"
    if key in _built:
        return _built[key]
    os.makedirs(BUILD, exist_ok=True)
    shutil.copyfile(os.path.join(REPO, "Cargo.lock"), os.path.join(VERIF, "harness", "Cargo.lock"))
    cmd = ["cargo", "build", "--offline", "--quiet", "--bins"] + (["--release"] if release else [])
    t0 = time.time()
    r = subprocess.run(cmd, cwd=os.path.join(VERIF, "harness"), env=ENV, capture_output=True, text=True)
    if r.returncode != 0:
        log(r.stdout[-3000:], r.stderr[-6000:])
        raise BuildError("harness build failed (the working tree of /repo does not compile with feature `verif`)")
    log("harness build (%s): %.1fs" % (key, time.time() - t0))
    _built[key] = os.path.join(TARGET, key, "impl_run")
    return _built[key]


class BuildError(Exception):
    pass


class ModelError(Exception):
    pass


CHUNK_TIMEOUT = 40          # seconds for one harness process to answer its chunk (normally a few seconds)
HARNESS_MEMORY = 8 << 30    # address-space limit of a harness process: a runaway loop that allocates fails fast instead of filling the machine


def _limit():
    import resource
    resource.setrlimit(resource.RLIMIT_AS, (HARNESS_MEMORY, HARNESS_MEMORY))


def run_impl(lines, release=False, binary="impl_run", env=None, shards=JOBS):
    """Run request lines through the harness binary; returns one decoded JSON reply per line."""
    exe = os.path.join(os.path.dirname(build_harness(release)), binary)
    lines = list(lines)
    if not lines:
        return []
    # chunks of bounded size (a chunk is one process), handed to a pool of workers
    per = max(40, min(1500, (len(lines) + shards - 1) // shards))
    chunks = [lines[i:i + per] for i in range(0, len(lines), per)]

    def one(chunk):
        try:
            r = subprocess.run([exe], input="\n".join(chunk) + "\n", capture_output=True, text=True, env=env or ENV,
                               timeout=CHUNK_TIMEOUT, preexec_fn=_limit)
        except subprocess.TimeoutExpired as e:
            # a line of this chunk does not come back: the replies received so far tell which one
            got = e.stdout or b""
            if isinstance(got, bytes):
                got = got.decode("utf-8", "replace")
            done = got.split("\n")[:-1]          # the last piece is empty or an incomplete reply
            res = []
            for l in done[:len(chunk)]:
                try:
                    res.append(json.loads(l))
                except ValueError:
                    break
            stuck = len(res)
            if stuck >= len(chunk):
                return res[:len(chunk)]
            res.append({"timeout": CHUNK_TIMEOUT, "line": chunk[stuck][:200]})
            rest = chunk[stuck + 1:]
            return res + (one(rest) if rest else [])
        out = r.stdout.split("\n")           # not splitlines(): replies may contain U+0085, U+2028 ... inside strings
        if out and out[-1] == "":
            out.pop()
        if len(out) < len(chunk):
            # the process died (abort / stack overflow) on line len(out): record it and go on with the rest
            res = [json.loads(l) for l in out]
            res.append({"crash": r.returncode, "stderr": r.stderr[-500:]})
            rest = chunk[len(out) + 1:]
            return res + (one(rest) if rest else [])
        return [json.loads(l) for l in out[:len(chunk)]]

    with ThreadPoolExecutor(max_workers=shards) as ex:
        outs = list(ex.map(one, chunks))
    res = []
    for o in outs:
        res += o
    return res


# ----------------------------------------------------------------------------------------------- coq
def translate():
    """Regenerate coq/gen/*.v from /repo (write-if-changed)."""
    tr = os.path.join(VERIF, "tools", "translate.py")
    if not os.path.exists(tr):
        return
    r = subprocess.run([sys.executable, tr], capture_output=True, text=True)
    if r.returncode != 0:
        log(r.stdout[-3000:], r.stderr[-3000:])
        raise TranslateError(r.stderr.strip().splitlines()[-1] if r.stderr.strip() else "translator failed")


class TranslateError(Exception):
    pass


HYGIENE = re.compile(r"\b(Admitted|admit|Axiom|Axioms|Parameter|Parameters|Conjecture|Hypothesis|Variable|Unset Guard|bypass_check|Admit Obligations|type-in-type|impredicative-set)\b")


def hygiene():
    """No admits, axioms or disabled checks anywhere in the development (Variable/Hypothesis only inside sections)."""
    bad = []
    for root, _, files in os.walk(COQ):
        for f in files:
            if not f.endswith(".v"):
                continue
            p = os.path.join(root, f)
            depth = 0
            txt = re.sub(r"\(\*.*?\*\)", " ", open(p).read(), flags=re.S)
            for ln, line in enumerate(txt.splitlines(), 1):
                if re.match(r"\s*Section\b", line):
                    depth += 1
                if re.match(r"\s*End\b", line) and depth > 0:
                    depth -= 1
                for m in HYGIENE.finditer(line):
                    w = m.group(1)
                    if w in ("Variable", "Hypothesis") and depth > 0:
                        continue
                    bad.append("%s:%d: %s" % (os.path.relpath(p, VERIF), ln, w))
    cp = open(os.path.join(COQ, "_CoqProject")).read()
    for w in ("type-in-type", "impredicative-set", "-vos", "bypass"):
        if w in cp:
            bad.append("_CoqProject: " + w)
    return bad


def coq_make(targets, timeout=1500):
    """Full .vo build of the given targets (and their dependency cone) through the coq_makefile Makefile."""
    mk = os.path.join(COQ, "Makefile")
    cp = os.path.join(COQ, "_CoqProject")
    if not os.path.exists(mk) or os.path.getmtime(mk) < os.path.getmtime(cp):
        subprocess.run(["coq_makefile", "-f", "_CoqProject", "-o", "Makefile"], cwd=COQ, check=True, capture_output=True)
    t0 = time.time()
    r = subprocess.run(["timeout", str(timeout), "make", "-j%d" % JOBS] + targets, cwd=COQ, capture_output=True, text=True)
    log("coq make %s: %.1fs rc=%d" % (" ".join(targets), time.time() - t0, r.returncode))
    return r.returncode == 0, r.stdout + r.stderr


def cone(target_v):
    """The .v files a target depends on (transitively), from coqdep."""
    r = subprocess.run(["coqdep", "-f", "_CoqProject"], cwd=COQ, capture_output=True, text=True)
    deps = {}
    for line in r.stdout.splitlines():
        if ":" not in line:
            continue
        lhs, rhs = line.split(":", 1)
        outs = [x for x in lhs.split() if x.endswith(".vo")]
        ins = [x[:-1] for x in rhs.split() if x.endswith(".vo")]
        for o in outs:
            deps[o[:-1]] = ins
    seen = []
    todo = [target_v]
    while todo:
        x = todo.pop()
        if x in seen:
            continue
        seen.append(x)
        todo.extend(deps.get(x, []))
    return sorted(seen)


OBL = re.compile(r"^\s*(Theorem|Lemma|Corollary|Example|Fact|Proposition|Remark)\s+([A-Za-z0-9_']+)", re.M)


def obligations(files):
    out = []
    for f in files:
        txt = re.sub(r"\(\*.*?\*\)", " ", open(os.path.join(COQ, f)).read(), flags=re.S)
        out += ["%s:%s" % (f, m.group(2)) for m in OBL.finditer(txt)]
    return out


def print_assumptions(prop_file, names):
    """Ask Coq for the axioms each property theorem depends on. Returns {name: [axioms]} ([] = closed)."""
    mod = "AV." + prop_file[:-2].replace("/", ".")
    os.makedirs(CASES, exist_ok=True)
    tmp = os.path.join(CASES, "assum_%s.v" % os.path.basename(prop_file)[:-2])
    with open(tmp, "w") as f:
        f.write("Require Import %s.\n" % mod)
        for n in names:
            f.write('Goal True. idtac "@@ %s". Abort.\nPrint Assumptions %s.\n' % (n, n))
    r = subprocess.run(["coqc", "-noglob", "-Q", COQ, "AV", tmp], capture_output=True, text=True, cwd=CASES)
    if r.returncode != 0:
        raise RuntimeError("Print Assumptions failed: " + r.stderr[-2000:])
    res = {}
    cur = None
    for line in r.stdout.splitlines():
        if line.startswith("@@ "):
            cur = line[3:].strip()
            res[cur] = []
        elif cur is not None:
            if "Closed under the global context" in line or line.strip() == "Axioms:" or not line.strip():
                continue
            m = re.match(r"^([A-Za-z0-9_.']+)\s*:", line)
            if m:
                res[cur].append(m.group(1))
    return res


def zlist(l):
    return "[" + ";".join(str(int(x)) for x in l) + "]"


def coq_eval_cases(cases, label, shard_size=250):
    """cases: list of (tag, input list[int], expected list[int]). Evaluates Run.run_case inside Coq (vm_compute)
    on every case and returns {index: model_output} for the cases where the model disagrees with `expected`."""
    os.makedirs(CASES, exist_ok=True)
    for f in os.listdir(CASES):
        if f.startswith("cases_%s_" % label):
            os.remove(os.path.join(CASES, f))
    shard_size = max(20, min(shard_size, -(-len(cases) // JOBS)))
    shards = [list(range(k, len(cases), max(1, -(-len(cases) // shard_size)))) for k in range(max(1, -(-len(cases) // shard_size)))]
    # balance: interleave so that expensive neighbours spread out
    files = []
    for k, idxs in enumerate(shards):
        p = os.path.join(CASES, "cases_%s_%d.v" % (label, k))
        with open(p, "w") as f:
            f.write("From Coq Require Import ZArith List.\nImport ListNotations.\nFrom AV Require Import model.Run.\nOpen Scope Z_scope.\n")
            f.write("Definition cs : list case := [\n")
            f.write(";\n".join("(%d, %d, %s, %s)" % (i, cases[i][0], zlist(cases[i][1]), zlist(cases[i][2])) for i in idxs))
            f.write("].\nEval vm_compute in failing cs.\n")
        files.append(p)

    def one(p):
        r = subprocess.run(["timeout", "900", "coqc", "-noglob", "-Q", COQ, "AV", p], capture_output=True, text=True, cwd=CASES)
        return p, r

    t0 = time.time()
    bad = {}
    with ThreadPoolExecutor(max_workers=JOBS) as ex:
        for p, r in ex.map(one, files):
            if r.returncode != 0:
                raise ModelError("model evaluation failed for %s: %s" % (p, (r.stderr or r.stdout)[-1500:]))
            txt = " ".join(r.stdout.split())
            m = re.search(r"= (.*) : list \(Z \* list Z\)", txt)
            if not m:
                raise RuntimeError("cannot read model output of %s: %s" % (p, txt[:500]))
            body = m.group(1).replace("(", "[").replace(")", "]").replace(";", ",")
            for i, got in json.loads(body):
                bad[i] = got
    log("model evaluation %s: %d cases in %d shards, %.1fs, %d disagreements" % (label, len(cases), len(files), time.time() - t0, len(bad)))
    return bad


# ----------------------------------------------------------------------------------------------- findings / evidence
def known_findings():
    """KNOWN_FINDINGS.txt: lines `finding: property=<id> key=<key> <text>` and `fixed: property=<id> <commit> <text>`."""
    out = {}
    p = os.path.join(VERIF, "KNOWN_FINDINGS.txt")
    if os.path.exists(p):
        for line in open(p):
            m = re.match(r"finding:\s+property=(\S+)\s+key=(\S+)\s+(.*)", line.strip())
            if m:
                out.setdefault(m.group(1), {})[m.group(2)] = m.group(3)
    return out


def statements_ok(prop_files):
    """Compare the property statement files with the committed hashes."""
    p = os.path.join(VERIF, "STATEMENTS.sha256")
    want = {}
    if os.path.exists(p):
        for line in open(p):
            if line.strip():
                h, f = line.split()
                want[f] = h
    bad = []
    for f in prop_files:
        h = hashlib.sha256(open(os.path.join(COQ, f), "rb").read()).hexdigest()
        if want.get(f) != h:
            bad.append(f)
    return bad


def write_evidence(prop, tier, seed, level, coverage, wall, violations, assumptions):
    os.makedirs(os.path.join(VERIF, "evidence"), exist_ok=True)
    ev = {"property_id": prop, "tier": tier, "seed": seed, "level": level, "coverage": coverage,
          "assumptions": assumptions, "wall_s": round(wall, 2), "violations": violations}
    with open(os.path.join(VERIF, "evidence", prop + ".json"), "w") as f:
        json.dump(ev, f, indent=1, ensure_ascii=False)
        f.write("\n")


def write_replay(prop, obj):
    d = os.path.join(VERIF, "replays", prop)
    os.makedirs(d, exist_ok=True)
    n = 0
    while os.path.exists(os.path.join(d, "%d.json" % n)):
        n += 1
    p = os.path.join(d, "%d.json" % n)
    with open(p, "w") as f:
        json.dump(obj, f, indent=1, ensure_ascii=False)
        f.write("\n")
    return p


def rng_for(seed, prop):
    return random.Random("%s/%s" % (seed, prop))


def chars(s):
    return [ord(c) for c in s]


def load_corpus(prop):
    """Minimised inputs that once disagreed or failed; always run first. One JSON string per line."""
    p = os.path.join(VERIF, "corpus", prop + ".jsonl")
    out = []
    if os.path.exists(p):
        for line in open(p):
            line = line.strip()
            if line:
                out.append(json.loads(line))
    return out


_any = {}


def build_any():
    """Build the `any` binary from /repo's working tree (no verification feature)."""
    if "any" in _any:
        return _any["any"]
    t0 = time.time()
    r = subprocess.run(["cargo", "build", "--offline", "--quiet", "-p", "anything", "--bin", "any"], cwd=REPO, env=ENV, capture_output=True, text=True)
    if r.returncode != 0:
        log(r.stderr[-4000:])
        raise BuildError("the `any` binary does not build from /repo's working tree")
    log("any build: %.1fs" % (time.time() - t0))
    _any["any"] = os.path.join(TARGET, "debug", "any")
    return _any["any"]


def run_any(arg_lists, data_home=None, extra_env=None):
    """Run the `any` binary once per argument list (in parallel); returns (stdout, stderr, returncode) triples."""
    exe = build_any()
    home = data_home or os.path.join(BUILD, "xdg")
    os.makedirs(home, exist_ok=True)
    env = dict(ENV, XDG_DATA_HOME=home, NO_COLOR="1", TERM="dumb", HOME=home)
    if extra_env:
        env.update(extra_env)
    # make sure the on-disk index exists before running in parallel
    subprocess.run([exe, "1"], env=env, capture_output=True, text=True)

    def one(args):
        r = subprocess.run([exe] + list(args), env=env, capture_output=True, text=True)
        return r.stdout, r.stderr, r.returncode
    with ThreadPoolExecutor(max_workers=JOBS) as ex:
        return list(ex.map(one, arg_lists))


def safe_text(codes):
    """Characters of a list of code points, for diagnostics (non-characters are shown as '?')."""
    return "".join(chr(c) if 0 <= c < 0x110000 and not (0xD800 <= c < 0xE000) else "?" for c in codes)
