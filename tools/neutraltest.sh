#!/bin/sh
# usage: run.sh <patch> <props...>  -- apply a harmless patch to /repo, run the named checks, revert
P=$1; shift
cd /repo && git diff --quiet || { echo "repo dirty"; exit 9; }
git apply $P || { echo "patch does not apply"; exit 9; }
cd /verif
for p in "$@"; do
  cp evidence/$p.json /tmp/neutral-ev.$p 2>/dev/null
  ./check $p > /tmp/neutral-out.$p 2> /tmp/neutral-err.$p; rc=$?
  cp /tmp/neutral-ev.$p evidence/$p.json 2>/dev/null
  echo "$(basename $P) $p rc=$rc $(grep -c VIOLATION /tmp/neutral-out.$p) $(grep BROKEN /tmp/neutral-err.$p | cut -c1-220)"
done
git -C /repo checkout -- .
