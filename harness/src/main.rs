//! impl_run: line protocol over the real `anything` library (built from /repo's working tree).
//! One request per stdin line, one JSON reply per stdout line. Strings travel hex-encoded (UTF-8).
use anything::{Compound, Rational, Unit};
use serde_json::{json, Value};
use std::io::{BufRead, Write};
use std::panic::{catch_unwind, AssertUnwindSafe};

fn unhex(s: &str) -> Option<String> {
    if s == "-" {
        return Some(String::new());
    }
    if s.len() % 2 != 0 {
        return None;
    }
    let bytes: Option<Vec<u8>> = (0..s.len() / 2)
        .map(|i| u8::from_str_radix(&s[2 * i..2 * i + 2], 16).ok())
        .collect();
    String::from_utf8(bytes?).ok()
}

fn unit_name(u: &Unit) -> String {
    match u {
        Unit::Derived(d) => format!("D{}", d.id),
        other => format!("{:?}", other),
    }
}

fn names(c: &Compound) -> Value {
    Value::Array(
        anything::verif::names(c)
            .into_iter()
            .map(|(u, p, e)| json!([unit_name(&u), p, e]))
            .collect(),
    )
}

fn rat(r: &Rational) -> Value {
    json!([r.numer().to_string(), r.denom().to_string()])
}

fn parse_rat(n: &str, d: &str) -> Option<Rational> {
    let n: num::BigInt = n.parse().ok()?;
    let d: num::BigInt = d.parse().ok()?;
    if num::Zero::is_zero(&d) {
        return None;
    }
    Some(Rational::new(n, d))
}

fn tree_json(node: syntree::Node<'_, anything::syntax::parser::Syntax, u32, u32>) -> Value {
    if node.has_children() {
        let ch: Vec<Value> = node.children().map(tree_json).collect();
        json!([format!("{:?}", node.value()), ch])
    } else {
        json!([format!("{:?}", node.value()), node.span().len()])
    }
}

fn do_query(db: &anything::Db, src: &str, describe: bool) -> Value {
    let parsed = match anything::parse(src) {
        Ok(p) => p,
        Err(e) => return json!({ "parse_error": e.to_string() }),
    };
    let mut descriptions = Vec::new();
    let mut out = Vec::new();
    let options = if describe {
        anything::Options::default().describe()
    } else {
        anything::Options::default()
    };
    for v in anything::query(&parsed, db, options, &mut descriptions) {
        match v {
            Ok(n) => out.push(json!({"ok": [n.value.numer().to_string(), n.value.denom().to_string(), names(&n.unit)],
                                     "unit_text": n.unit.to_string(), "unit_plural": n.unit.display(true).to_string()})),
            Err(e) => {
                let r = e.range();
                let boundary = r.start <= r.end
                    && r.end <= src.len()
                    && src.is_char_boundary(r.start)
                    && src.is_char_boundary(r.end);
                out.push(json!({"err": [r.start, r.end, e.to_string(), boundary]}))
            }
        }
    }
    let desc: Vec<Value> = descriptions
        .into_iter()
        .map(|d| match d {
            anything::Description::Constant(q, c) => json!({
                "phrase": q.to_string(), "tokens": c.tokens.iter().map(|t| t.to_string()).collect::<Vec<_>>(),
                "description": c.description.to_string(), "value": rat(&c.value), "unit": names(&c.unit), "source": c.source }),
        })
        .collect();
    json!({ "results": out, "desc": desc })
}

fn handle(db: &anything::Db, line: &str) -> Value {
    let mut it = line.split(' ');
    let cmd = it.next().unwrap_or("");
    let args: Vec<&str> = it.collect();
    match cmd {
        // Q <hex> [d]: full query
        "Q" => {
            let Some(src) = args.first().and_then(|a| unhex(a)) else { return json!({"bad": 1}) };
            do_query(db, &src, args.get(1) == Some(&"d"))
        }
        // T <hex>: tokens and syntax tree
        "T" => {
            let Some(src) = args.first().and_then(|a| unhex(a)) else { return json!({"bad": 1}) };
            let toks: Vec<Value> = anything::syntax::lexer::Lexer::new(&src)
                .map(|t| json!([format!("{:?}", t.kind), t.len]))
                .collect();
            let tree = match anything::syntax::parser::Parser::new(&src).parse_root() {
                Ok(t) => Value::Array(t.children().map(tree_json).collect()),
                Err(e) => json!({ "tree_error": e.to_string() }),
            };
            json!({ "toks": toks, "tree": tree })
        }
        // R <hex>: str::parse::<Rational>
        "R" => {
            let Some(src) = args.first().and_then(|a| unhex(a)) else { return json!({"bad": 1}) };
            match src.parse::<Rational>() {
                Ok(r) => json!({ "ok": rat(&r) }),
                Err(_) => json!({ "err": 1 }),
            }
        }
        // D <n> <d> <limit> <exponent_limit>: Rational::display
        "D" => {
            let (Some(n), Some(d), Some(l), Some(e)) = (args.first(), args.get(1), args.get(2), args.get(3)) else { return json!({"bad": 1}) };
            let Some(r) = parse_rat(n, d) else { return json!({"bad": 1}) };
            let mut spec = anything::rational::DisplaySpec::default();
            spec.limit = l.parse().unwrap_or(6);
            spec.exponent_limit = e.parse().unwrap_or(8);
            spec.show_continuation = true;
            json!({ "text": r.display(&spec).to_string() })
        }
        // DJ <hex json> <limit> <exponent limit>: a Rational as serde reads it from JSON (numerator and denominator exactly as
        // stored: not reduced, the denominator may be negative), displayed
        "DJ" => {
            let (Some(j), Some(l), Some(e)) = (args.first().and_then(|a| unhex(a)), args.get(1), args.get(2)) else { return json!({"bad": 1}) };
            let r: Rational = match serde_json::from_str(&j) { Ok(r) => r, Err(e) => return json!({"decode_error": e.to_string()}) };
            let mut spec = anything::rational::DisplaySpec::default();
            spec.limit = l.parse().unwrap_or(6);
            spec.exponent_limit = e.parse().unwrap_or(8);
            spec.show_continuation = true;
            json!({ "text": r.display(&spec).to_string() })
        }
        // U <hex>: str::parse::<Compound>
        "U" => {
            let Some(src) = args.first().and_then(|a| unhex(a)) else { return json!({"bad": 1}) };
            match src.parse::<Compound>() {
                Ok(c) => json!({ "ok": names(&c), "text": c.to_string(), "plural": c.display(true).to_string() }),
                Err(e) => json!({ "err": e.to_string() }),
            }
        }
        // W <hex>: generated unit word parser, one step
        "W" => {
            let Some(src) = args.first().and_then(|a| unhex(a)) else { return json!({"bad": 1}) };
            match anything::verif::unit_parse(&src) {
                Some((rest, prefix, unit)) => json!({ "ok": [src.len() - rest.len(), prefix, unit_name(&unit)] }),
                None => json!({ "none": 1 }),
            }
        }
        // L c|u <hex>: raw logos step
        "L" => {
            let (Some(which), Some(src)) = (args.first(), args.get(1).and_then(|a| unhex(a))) else { return json!({"bad": 1}) };
            let r = if *which == "c" { anything::verif::lex_step_combined(&src) } else { anything::verif::lex_step_units(&src) };
            match r {
                Some((tok, n)) => json!({ "tok": tok, "len": n }),
                None => json!({ "end": 1 }),
            }
        }
        // F <hex target> <hex source> <n> <d>: Compound::factor (target.factor(source, value))
        "F" => {
            let (Some(a), Some(b), Some(n), Some(d)) = (args.first().and_then(|a| unhex(a)), args.get(1).and_then(|a| unhex(a)), args.get(2), args.get(3)) else { return json!({"bad": 1}) };
            let (Ok(a), Ok(b)) = (a.parse::<Compound>(), b.parse::<Compound>()) else { return json!({"unit_err": 1}) };
            let Some(v) = parse_rat(n, d) else { return json!({"bad": 1}) };
            match anything::verif::factor(&a, &b, v) {
                Some((ok, v)) => json!({ "ok": ok, "value": rat(&v), "a": names(&a), "b": names(&b) }),
                None => json!({ "compound_error": 1, "a": names(&a), "b": names(&b) }),
            }
        }
        // M <hex a> <hex b> <n> <ln> <ld> <rn> <rd>: Compound::mul
        "M" => {
            let (Some(a), Some(b)) = (args.first().and_then(|a| unhex(a)), args.get(1).and_then(|a| unhex(a))) else { return json!({"bad": 1}) };
            let (Ok(a), Ok(b)) = (a.parse::<Compound>(), b.parse::<Compound>()) else { return json!({"unit_err": 1}) };
            let n: i32 = args.get(2).and_then(|x| x.parse().ok()).unwrap_or(1);
            let (Some(l), Some(r)) = (parse_rat(args.get(3).unwrap_or(&"1"), args.get(4).unwrap_or(&"1")), parse_rat(args.get(5).unwrap_or(&"1"), args.get(6).unwrap_or(&"1"))) else { return json!({"bad": 1}) };
            match anything::verif::mul(&a, &b, n, l, r) {
                Some((u, l, r)) => json!({ "unit": names(&u), "lhs": rat(&l), "rhs": rat(&r), "a": names(&a), "b": names(&b) }),
                None => json!({ "compound_error": 1, "a": names(&a), "b": names(&b) }),
            }
        }
        // K <hex> <k>: best k matches with scores
        "K" => {
            let Some(src) = args.first().and_then(|a| unhex(a)) else { return json!({"bad": 1}) };
            let k: usize = args.get(1).and_then(|x| x.parse().ok()).unwrap_or(3);
            match anything::verif::lookup_top(db, &src, k) {
                Ok(v) => Value::Array(v.into_iter().map(|(s, c)| match c {
                    Some(c) => json!({"score": s, "tokens": c.tokens.iter().map(|t| t.to_string()).collect::<Vec<_>>(), "description": c.description.to_string(),
                                      "value": rat(&c.value), "unit": names(&c.unit), "source": c.source}),
                    None => json!({"score": s, "undecodable": 1}),
                }).collect()),
                Err(e) => json!({ "lookup_error": e }),
            }
        }
        // C r <n> <d> | C u <hex unit>: serde round trips (CBOR bytes in hex, decoded again; JSON for rationals)
        "C" => match args.first() {
            Some(&"r") => {
                let Some(r) = parse_rat(args.get(1).unwrap_or(&"0"), args.get(2).unwrap_or(&"1")) else { return json!({"bad": 1}) };
                let cbor = serde_cbor::to_vec(&r).ok();
                let back: Option<Rational> = cbor.as_ref().and_then(|b| serde_cbor::from_slice(b).ok());
                let js = serde_json::to_string(&r).ok();
                let jback: Option<Rational> = js.as_ref().and_then(|s| serde_json::from_str(s).ok());
                json!({ "cbor": cbor.map(hex), "cbor_back": back.as_ref().map(rat), "json": js, "json_back": jback.as_ref().map(rat) })
            }
            Some(&"u") => {
                let Some(src) = args.get(1).and_then(|a| unhex(a)) else { return json!({"bad": 1}) };
                let Ok(c) = src.parse::<Compound>() else { return json!({"unit_err": 1}) };
                let cbor = serde_cbor::to_vec(&c).ok();
                let back: Option<Compound> = cbor.as_ref().and_then(|b| serde_cbor::from_slice(b).ok());
                json!({ "names": names(&c), "cbor": cbor.map(hex), "cbor_back": back.as_ref().map(names), "equal": back.as_ref().map(|b| *b == c) })
            }
            // C c <hex unit> <n> <d> <source or -> <hex words> <hex description>: a whole constant through CBOR and JSON
            Some(&"c") => {
                let Some(src) = args.get(1).and_then(|a| unhex(a)) else { return json!({"bad": 1}) };
                let Ok(unit) = src.parse::<Compound>() else { return json!({"unit_err": 1}) };
                let Some(value) = parse_rat(args.get(2).unwrap_or(&"0"), args.get(3).unwrap_or(&"1")) else { return json!({"bad": 1}) };
                let source = args.get(4).and_then(|a| a.parse::<u64>().ok());
                let words = args.get(5).and_then(|a| unhex(a)).unwrap_or_default();
                let description = args.get(6).and_then(|a| unhex(a)).unwrap_or_default();
                let c = anything::Constant {
                    source,
                    tokens: words.split(' ').filter(|w| !w.is_empty()).map(|w| w.into()).collect(),
                    description: description.into(),
                    value,
                    unit,
                };
                let same = |b: &anything::Constant| b.value == c.value && b.unit == c.unit && b.description == c.description && b.tokens == c.tokens && b.source == c.source;
                let cbor = serde_cbor::to_vec(&c).map_err(|e| e.to_string());
                let back = cbor.as_ref().ok().map(|b| serde_cbor::from_slice::<anything::Constant>(b).map_err(|e| e.to_string()));
                let js = serde_json::to_string(&c).map_err(|e| e.to_string());
                let jback = js.as_ref().ok().map(|b| serde_json::from_str::<anything::Constant>(b).map_err(|e| e.to_string()));
                json!({
                    "names": names(&c.unit),
                    "cbor": cbor.as_ref().ok().map(|b| hex(b.clone())), "cbor_err": cbor.as_ref().err(),
                    "cbor_same": back.as_ref().and_then(|b| b.as_ref().ok().map(|b| same(b))), "cbor_back_err": back.as_ref().and_then(|b| b.as_ref().err().cloned()),
                    "json_same": jback.as_ref().and_then(|b| b.as_ref().ok().map(|b| same(b))), "json_back_err": jback.as_ref().and_then(|b| b.as_ref().err().cloned()),
                })
            }
            // C d <hex cbor bytes as hex string>: decode a Compound from given CBOR
            Some(&"d") => {
                let Some(h) = args.get(1) else { return json!({"bad": 1}) };
                let bytes: Vec<u8> = (0..h.len() / 2).filter_map(|i| u8::from_str_radix(&h[2 * i..2 * i + 2], 16).ok()).collect();
                match serde_cbor::from_slice::<Compound>(&bytes) {
                    Ok(c) => json!({ "names": names(&c), "text": c.to_string() }),
                    Err(e) => json!({ "err": e.to_string() }),
                }
            }
            // C s: every constant of every shipped data file: decode, re-encode, decode again
            Some(&"s") => {
                #[derive(serde::Deserialize)]
                struct Doc {
                    #[serde(default)]
                    constants: Vec<anything::Constant>,
                }
                let mut out = Vec::new();
                let mut files: Vec<_> = match std::fs::read_dir("/repo/db") { Ok(d) => d.filter_map(|e| e.ok()).map(|e| e.path()).collect(), Err(_) => Vec::new() };
                files.sort();
                for path in files {
                    let name = path.file_name().map(|n| n.to_string_lossy().to_string()).unwrap_or_default();
                    if name == "sources.bin.gz" || !name.ends_with(".bin.gz") { continue; }
                    let Ok(f) = std::fs::File::open(&path) else { continue };
                    let doc: Result<Doc, _> = serde_cbor::from_reader(flate2::read::GzDecoder::new(f));
                    let Ok(doc) = doc else { out.push(json!({"file": name, "undecodable": 1})); continue };
                    for c in doc.constants {
                        let bytes = serde_cbor::to_vec(&c).ok();
                        let back: Option<anything::Constant> = bytes.as_ref().and_then(|b| serde_cbor::from_slice(b).ok());
                        let same = back.as_ref().map(|b| b.value == c.value && b.unit == c.unit && b.description == c.description && b.tokens == c.tokens && b.source == c.source);
                        out.push(json!({"file": name, "tokens": c.tokens.iter().map(|t| t.to_string()).collect::<Vec<_>>(), "value": rat(&c.value), "unit": names(&c.unit),
                                        "value_cbor": serde_cbor::to_vec(&c.value).ok().map(hex), "unit_cbor": serde_cbor::to_vec(&c.unit).ok().map(hex),
                                        "constant_cbor": bytes.map(hex), "description": c.description.to_string(), "source": c.source, "roundtrip": same}));
                    }
                }
                Value::Array(out)
            }
            _ => json!({"bad": 1}),
        },
        _ => json!({ "bad": 1 }),
    }
}

fn hex(b: Vec<u8>) -> String {
    b.iter().map(|x| format!("{:02x}", x)).collect()
}

fn main() {
    // Quiet panics: they are reported as {"panic": ...} replies.
    std::panic::set_hook(Box::new(|_| {}));
    let db = anything::Db::in_memory().expect("in-memory database");
    let stdin = std::io::stdin();
    let stdout = std::io::stdout();
    let mut out = std::io::BufWriter::new(stdout.lock());
    for line in stdin.lock().lines() {
        let Ok(line) = line else { break };
        let reply = match catch_unwind(AssertUnwindSafe(|| handle(&db, &line))) {
            Ok(v) => v,
            Err(p) => {
                let msg = p.downcast_ref::<String>().cloned().or_else(|| p.downcast_ref::<&str>().map(|s| s.to_string())).unwrap_or_default();
                json!({ "panic": msg })
            }
        };
        let _ = writeln!(out, "{}", reply);
        // flushed per reply: when the process is killed or aborts, the replies received tell which line did it
        let _ = out.flush();
    }
    let _ = out.flush();
}
