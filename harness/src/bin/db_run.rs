//! db_run: opens the on-disk database exactly like the `any` binary (`Db::open`, honouring XDG_DATA_HOME and, with the `verif`
//! feature, ANYTHING_VERIF_CRASH_AT) and answers the probe queries given as hex arguments, one JSON line each.
use serde_json::json;

fn unhex(s: &str) -> Option<String> {
    let bytes: Option<Vec<u8>> = (0..s.len() / 2).map(|i| u8::from_str_radix(&s[2 * i..2 * i + 2], 16).ok()).collect();
    String::from_utf8(bytes?).ok()
}

fn main() {
    let mode = std::env::var("DB_RUN_MODE").unwrap_or_default();
    let db = if mode == "memory" { anything::Db::in_memory() } else { anything::Db::open() };
    let db = match db {
        Ok(db) => db,
        Err(e) => {
            println!("{}", json!({"open_error": e.to_string()}));
            std::process::exit(3);
        }
    };
    for arg in std::env::args().skip(1) {
        let Some(q) = unhex(&arg) else { continue };
        let Ok(parsed) = anything::parse(&q) else { println!("{}", json!({"parse_error": 1})); continue };
        let mut d = Vec::new();
        let mut out = Vec::new();
        for v in anything::query(&parsed, &db, anything::Options::default().describe(), &mut d) {
            match v {
                Ok(n) => out.push(json!({"ok": [n.value.numer().to_string(), n.value.denom().to_string(), n.unit.to_string()]})),
                Err(e) => out.push(json!({"err": e.to_string()})),
            }
        }
        let desc: Vec<_> = d.into_iter().map(|x| match x { anything::Description::Constant(p, c) => json!([p.to_string(), c.description.to_string()]) }).collect();
        println!("{}", json!({"q": q, "results": out, "desc": desc}));
    }
}
