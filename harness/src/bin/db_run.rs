//! db_run: opens the on-disk database exactly like the `any` binary (`Db::open`, honouring XDG_DATA_HOME and, with the `verif`
//! feature, ANYTHING_VERIF_CRASH_AT) and answers the probe queries given as hex arguments, one JSON line each.
use serde_json::json;

fn unhex(s: &str) -> Option<String> {
    let bytes: Option<Vec<u8>> = (0..s.len() / 2).map(|i| u8::from_str_radix(&s[2 * i..2 * i + 2], 16).ok()).collect();
    String::from_utf8(bytes?).ok()
}

fn run_query(db: &anything::Db, q: &str) -> serde_json::Value {
    let Ok(parsed) = anything::parse(q) else { return json!({"parse_error": 1}) };
    let mut d = Vec::new();
    let mut out = Vec::new();
    for v in anything::query(&parsed, db, anything::Options::default().describe(), &mut d) {
        match v {
            Ok(n) => out.push(json!({"ok": [n.value.numer().to_string(), n.value.denom().to_string(), n.unit.to_string()]})),
            Err(e) => out.push(json!({"err": e.to_string()})),
        }
    }
    let desc: Vec<_> = d.into_iter().map(|x| match x { anything::Description::Constant(p, c) => json!([p.to_string(), c.description.to_string()]) }).collect();
    json!({"q": q, "results": out, "desc": desc})
}

fn poison_layout() -> Result<(), String> {
    use tantivy::schema::{Schema, STORED, TEXT};
    let root = std::env::var("XDG_DATA_HOME").map_err(|e| e.to_string())?;
    let path = std::path::Path::new(&root).join("facts").join("index");
    let _ = std::fs::remove_dir_all(&path);
    std::fs::create_dir_all(&path).map_err(|e| e.to_string())?;
    let mut b = Schema::builder();
    b.add_text_field("name", TEXT);
    b.add_bytes_field("data", STORED);
    let index = tantivy::Index::create_in_dir(&path, b.build()).map_err(|e| e.to_string())?;
    let mut w = index.writer_with_num_threads(1, 50_000_000).map_err(|e| e.to_string())?;
    w.commit().map_err(|e| e.to_string())?;
    Ok(())
}

fn poison() -> Result<(), String> {
    use tantivy::tokenizer::{LowerCaser, NgramTokenizer, TextAnalyzer};
    let root = std::env::var("XDG_DATA_HOME").map_err(|e| e.to_string())?;
    let path = std::path::Path::new(&root).join("facts").join("index");
    let index = tantivy::Index::open_in_dir(&path).map_err(|e| e.to_string())?;
    index.tokenizers().register("ngram", TextAnalyzer::from(NgramTokenizer::new(1, 7, true)).filter(LowerCaser));
    let schema = index.schema();
    let data = schema.get_field("data").ok_or("no data field")?;
    let name = schema.get_field("name").ok_or("no name field")?;
    let c = anything::Constant {
        source: None,
        tokens: vec!["zzyzx".into(), "quuxium".into()],
        description: "a fact that is not shipped".into(),
        value: anything::Rational::new(424242u32, 1u32),
        unit: anything::Compound::default(),
    };
    let mut w = index.writer_with_num_threads(1, 50_000_000).map_err(|e| e.to_string())?;
    let mut doc = tantivy::Document::default();
    doc.add_bytes(data, serde_cbor::to_vec(&c).map_err(|e| e.to_string())?);
    for t in &c.tokens {
        doc.add_text(name, t.as_ref());
    }
    w.add_document(doc).map_err(|e| e.to_string())?;
    w.commit().map_err(|e| e.to_string())?;
    Ok(())
}

fn main() {
    let mode = std::env::var("DB_RUN_MODE").unwrap_or_default();
    if mode == "poison_layout" {
        // replace the on-disk index by one with another layout (the name field analysed by the default tokenizer), as another
        // release might have written it
        std::process::exit(match poison_layout() { Ok(()) => 0, Err(e) => { println!("{}", json!({"poison_error": e})); 3 } });
    }
    if mode == "poison" {
        // add a document that is not part of the shipped data to the on-disk index (as an index written for other data would hold)
        std::process::exit(match poison() { Ok(()) => 0, Err(e) => { println!("{}", json!({"poison_error": e})); 3 } });
    }
    let db = if mode == "memory" { anything::Db::in_memory() } else { anything::Db::open() };
    let db = match db {
        Ok(db) => db,
        Err(e) => {
            println!("{}", json!({"open_error": e.to_string()}));
            std::process::exit(3);
        }
    };
    if std::env::args().len() == 1 {
        // session mode: one request per line of standard input: `K <hex> <k>` (best k documents with the bit patterns of their scores)
        // or `Q <hex>` (the query through anything::query with descriptions)
        use std::io::BufRead;
        let stdin = std::io::stdin();
        for line in stdin.lock().lines() {
            let Ok(line) = line else { break };
            let parts: Vec<&str> = line.split_whitespace().collect();
            match parts.as_slice() {
                ["K", h, k] => {
                    let Some(q) = unhex(h) else { println!("{}", json!({"bad": 1})); continue };
                    let k: usize = k.parse().unwrap_or(1);
                    match anything::verif::lookup_top(&db, &q, k) {
                        Ok(v) => println!("{}", serde_json::Value::Array(v.into_iter().map(|(s, c)| match c {
                            Some(c) => json!({"bits": s.to_bits(), "tokens": c.tokens.iter().map(|t| t.to_string()).collect::<Vec<_>>(),
                                              "description": c.description.to_string(), "num": c.value.numer().to_string(), "den": c.value.denom().to_string(),
                                              "unit": c.unit.to_string(), "source": c.source}),
                            None => json!({"bits": s.to_bits(), "undecodable": 1}),
                        }).collect())),
                        Err(e) => println!("{}", json!({"lookup_error": e})),
                    }
                }
                ["Q", h] => {
                    let Some(q) = unhex(h) else { println!("{}", json!({"bad": 1})); continue };
                    println!("{}", run_query(&db, &q));
                }
                _ => println!("{}", json!({"bad": 1})),
            }
        }
        return;
    }
    for arg in std::env::args().skip(1) {
        let Some(q) = unhex(&arg) else { continue };
        println!("{}", run_query(&db, &q));
    }
}
