#!/bin/sh
# Build the framework from files on disk only (offline): translated tables, the whole Coq development, the harness.
set -e
cd "$(dirname "$0")"
export CARGO_NET_OFFLINE=true CARGO_TARGET_DIR=/verif/.build/target
mkdir -p .build
[ -f tools/translate.py ] && python3 tools/translate.py
(cd coq && coq_makefile -f _CoqProject -o Makefile >/dev/null && timeout 3000 make -j16)
cp /repo/Cargo.lock harness/Cargo.lock
(cd harness && cargo build --offline --bins && cargo build --offline --release --bins)
echo setup done
